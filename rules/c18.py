"""C18 -- including files is a deep merge in the including scope, included values win."""
from __future__ import annotations

import ast

from engine.defuse import value_sources
from engine.flow import expand_aliases, dominating_guards, must_pass, reachable_from_entry, returns_of
from .common import CALLS, MUTATING_METHODS, open_mode

META = {
    "explanation": (
        "The merge law over all tree pairs is value-level. Decided: combine_trees is pure -- no store, delete or "
        "mutating call has a receiver rooted at a parameter, all writes go to a locally allocated copy of the "
        "base tree, which is what is returned; at the include site the first (base) argument of combine_trees is "
        "the including tree and the second derives from the parsed file; in the non-recursive branches the "
        "result takes the *second* tree's value, the recursive branch is taken exactly when both sides are maps "
        "and recurses with (base value, included value) in that order; the include path is validated by the "
        "field (exists='file', start directory) before it is opened, in binary mode, and parsed with the format "
        "of the including document; _process_includes handles include fields before nested schemas, feeds each "
        "result into the next include of the same scope, and stores each nested result back under its key."),
    "decided": ["C18.1 combine_trees pure, returns the copy", "C18.2 argument roles and 'included wins' in every branch",
                "C18.3 validate-before-open, exists='file', same format", "C18.4 _process_includes: includes before nested scopes, results stored back"],
    "not_decided": ["the merge law over all tree pairs; path resolution on the file system"],
}


def _is_get(e):
    return isinstance(e, ast.Call) and isinstance(e.func, ast.Attribute) and e.func.attr == "get" and 1 <= len(e.args) <= 2


def rooted_at_param(fn, e, params, node=None):
    """is *e* the parameter or something looked up in it (p[k], p.get(k), through locals)?"""
    while isinstance(e, (ast.Attribute, ast.Subscript)) or _is_get(e):
        e = e.func.value if _is_get(e) else e.value
    if isinstance(e, ast.Name):
        srcs = value_sources(fn, e, node)
        return any(k == "param" and p in params for k, p in srcs) or any(
            k == "expr" and (isinstance(pl, ast.Subscript) or _is_get(pl)) and rooted_at_param(fn, pl, params) for k, pl in srcs)
    return False


def lookup_key(fn, e, node=None):
    """the key expression of `X[k]` / `X.get(k)`, following one local"""
    if isinstance(e, ast.Subscript):
        return e.slice
    if _is_get(e):
        return e.args[0]
    if isinstance(e, ast.Name):
        srcs = value_sources(fn, e, node)
        if len(srcs) == 1 and srcs[0][0] == "expr" and (isinstance(srcs[0][1], ast.Subscript) or _is_get(srcs[0][1])):
            return lookup_key(fn, srcs[0][1])
    return None


def check(ctx):
    an, model = ctx.an, ctx.model
    calls = an.summary(CALLS)
    ct = model.method("IncludeField", "combine_trees")
    inc = model.method("IncludeField", "include")
    g = an.cfg(ct)
    params = set(ct.positional_params[1:])
    bparam, cparam = ct.positional_params[1], ct.positional_params[2]

    # ---------------------------------------------------------------- C18.0' every load works on its own tree
    # _process_includes writes merged sub-trees into the tree it was handed: that is invisible only because every loads() parses
    # a new tree.  A parser result that is memoised (functools.lru_cache / cache on a function reachable from a format's loads) is
    # one object shared by all loads of the same bytes -- the second load sees the first one's merges.
    CF_ = model.cls("ConfigFormat")
    roots_ = [c_.methods["loads"] for c_ in CF_.subclasses(strict=True) if "loads" in c_.methods]
    cached = []
    for f_ in an.reachable_fns(roots_):
        if isinstance(f_.node, ast.FunctionDef):
            for d_ in f_.node.decorator_list:
                txt = ast.unparse(d_.func if isinstance(d_, ast.Call) else d_)
                if txt.split(".")[-1] in ("lru_cache", "cache", "cached_property", "memoize"):
                    cached.append((f_, d_))
    for f_, d_ in cached:
        ctx.ob("parse.fresh-tree", f_, d_, False,
               "%s is memoised and reachable from a format's loads: the parsed tree is one object shared by every load of the same bytes, and "
               "the include processing writes into it" % f_.qualname, node=d_)
    if not cached:
        ctx.ob("parse.fresh-tree", CF_, "no memoised function below ConfigFormat.loads", True, "every loads() parses a new tree", nontrivial=False)

    # ---------------------------------------------------------------- C18.0 every include implementation merges deeply
    # (a sibling of IncludeField -- a field that includes several files -- combines parsed trees with combine_trees as well: a
    # parsed document handed to dict.update / {**a, **b} / a | b replaces nested maps wholesale)
    mixin = model.cls("IncludeFieldMixin")
    for c_ in mixin.subclasses(strict=True):
        f_ = c_.methods.get("include")
        if f_ is None:
            continue
        gi = an.cfg(f_)

        def parsed(e, at, f_=f_, gi=gi):
            """the value can be the tree a formatter parsed from an included file"""
            for k_, p_ in (value_sources(f_, e, at) if isinstance(e, ast.Name) else [("expr", e)]):
                if k_ == "expr" and isinstance(p_, ast.Call) and isinstance(p_.func, ast.Attribute) and p_.func.attr in ("loads", "load"):
                    return True
            return False
        for n_ in gi.nodes:
            if n_.kind == "call" and isinstance(n_.ast.func, ast.Attribute) and n_.ast.func.attr == "update" and n_.ast.args \
                    and any(parsed(a_, n_) for a_ in n_.ast.args):
                ctx.ob("merge.only-deep", f_, n_.ast, False,
                       "%s merges the tree of an included file with dict.update: nested maps of files listed together replace each other "
                       "instead of merging" % f_.qualname, node=n_)
        for x_ in ast.walk(f_.node):
            shallow = None
            if isinstance(x_, ast.Dict) and any(k_ is None for k_ in x_.keys):
                shallow = [v_ for k_, v_ in zip(x_.keys, x_.values) if k_ is None]
            elif isinstance(x_, ast.BinOp) and isinstance(x_.op, ast.BitOr):
                shallow = [x_.left, x_.right]
            if shallow and any(parsed(v_, None) for v_ in shallow):
                ctx.ob("merge.only-deep", f_, x_, False,
                       "%s merges the tree of an included file shallowly (%s)" % (f_.qualname, ast.unparse(x_)[:40]), node=x_)
        ctx.ob("merge.only-deep", f_, "trees of included files", True, "no shallow merge of a parsed tree", nontrivial=False)

    # ---------------------------------------------------------------- C18.1 purity
    def fresh_receiver(e, node, depth=0):
        """is the object written through *e* provably allocated inside this call?"""
        while isinstance(e, (ast.Attribute, ast.Subscript)):
            e = e.value
        if not isinstance(e, ast.Name) or depth > 4:
            return False
        srcs = value_sources(ct, e, node)
        if not srcs:
            return False
        for k, pl in srcs:
            if k == "expr" and isinstance(pl, ast.Call) and ast.unparse(pl.func) in ("dict", "list", "OrderedDict", "copy.copy", "copy.deepcopy"):
                continue
            if k == "expr" and isinstance(pl, ast.Call) and isinstance(pl.func, ast.Attribute) and pl.func.attr == "copy":
                continue
            if k == "expr" and isinstance(pl, (ast.Dict, ast.List, ast.DictComp, ast.ListComp)):
                continue
            return False
        return True

    bad = []
    for n in g.nodes:
        if n.kind == "assign":
            st = n.ast
            tgts = st.targets if isinstance(st, ast.Assign) else [st.target]
            for t in tgts:
                if isinstance(t, (ast.Subscript, ast.Attribute)) and not fresh_receiver(t.value, n):
                    bad.append(n)
        elif n.kind == "delete":
            for t in n.ast.targets:
                if isinstance(t, (ast.Subscript, ast.Attribute)) and not fresh_receiver(t.value, n):
                    bad.append(n)
        elif n.kind == "call" and isinstance(n.ast.func, ast.Attribute) and n.ast.func.attr in MUTATING_METHODS:
            if isinstance(n.ast.func.value, ast.Name) and not fresh_receiver(n.ast.func.value, n):
                bad.append(n)
    ctx.ob("pure", ct, "every write goes to an object allocated inside the call", not bad,
           "combine_trees writes only into its own copy" if not bad else
           "combine_trees writes through `%s` (line %s), which is not provably the local copy: a nested map of an input tree can be modified"
           % (ast.unparse(bad[0].ast)[:50], bad[0].lineno))
    rets = returns_of(an, ct)
    okr = bool(rets)
    for r in rets:
        srcs = value_sources(ct, r.ast.value, r)
        fresh = all(k == "expr" and isinstance(pl, ast.Call) and ast.unparse(pl.func) in ("dict", "copy.copy", "copy.deepcopy", "OrderedDict")
                    and pl.args and isinstance(pl.args[0], ast.Name) and pl.args[0].id == bparam for k, pl in srcs) and bool(srcs)
        fresh = fresh or all(k == "expr" and isinstance(pl, ast.Call) and isinstance(pl.func, ast.Attribute) and pl.func.attr == "copy"
                             and isinstance(pl.func.value, ast.Name) and pl.func.value.id == bparam for k, pl in srcs) and bool(srcs)
        fresh = fresh or all(k == "expr" and isinstance(pl, (ast.Dict, ast.DictComp)) for k, pl in srcs) and bool(srcs)
        okr = okr and fresh
    ctx.ob("returns-copy-of-base", ct, "ret = dict(base) ... return ret", okr,
           "the result starts as a copy of the base tree (keys only in the base are kept) and is a new object" if okr else
           "combine_trees does not return a fresh copy of the base tree (it returns an input, or drops the base's keys)")

    # ---------------------------------------------------------------- C18.2 precedence
    recursive_shape = any(ct in an.callees(ct, n) for n in g.nodes if n.kind == "call")
    nloops = len([x for x in ast.walk(ct.node) if isinstance(x, (ast.For, ast.While))])
    if not recursive_shape and nloops <= 1 and not any(isinstance(x, ast.While) for x in ast.walk(ct.node)):
        # a single pass without recursion: nested maps cannot be merged at all -- evaluate the clauses (they will say so)
        recursive_shape = True
    if not recursive_shape:
        # a re-written merge (work list, reduce, ...): the precedence clauses below are phrased for the recursive shape
        # and are not evaluated; purity and "returns a fresh copy" above still are
        ctx.ob("shape", ct, "recursive merge", True, "merge is not self-recursive: precedence clauses not evaluated for this shape (purity still is)",
               nontrivial=False)
        ctx.note("combine_trees is not self-recursive: C18.2 precedence clauses skipped")
    # the other common spelling: plain dict.update semantics first, recursive fix-ups of the shared sub-trees afterwards
    #     ret = {**base, **child};  ret.update((k, self.combine_trees(base[k], child[k])) for k in <keys where both are maps>)
    merge_first = None
    for r in rets:
        for k_, pl in (value_sources(ct, r.ast.value, r) if isinstance(r.ast.value, ast.Name) else [("expr", r.ast.value)]):
            if k_ == "expr" and isinstance(pl, ast.Dict) and len(pl.keys) == 2 and all(x is None for x in pl.keys):
                merge_first = pl
    if merge_first is not None and not any(isinstance(x, (ast.For, ast.While)) for x in ast.walk(ct.node)):
        first, second = merge_first.values
        okw = isinstance(first, ast.Name) and first.id == bparam and isinstance(second, ast.Name) and second.id == cparam
        ctx.ob("included-wins", ct, merge_first, okw, "{**base, **child}: the included tree's values replace the including document's" if okw else
               "the trees are merged in the wrong order: the including document wins", node=None)
        fix = [x for x in ast.walk(ct.node) if isinstance(x, (ast.GeneratorExp, ast.ListComp, ast.DictComp)) and any(
            isinstance(y, ast.Call) and g.nodes_for(y) and ct in an.callees(ct, g.nodes_for(y)[0]) for y in ast.walk(x.elt if not isinstance(x, ast.DictComp) else x.value))]
        ctx.ob("recursion.exists", ct, "nested maps merge recursively", bool(fix), "map/map conflicts are merged recursively" if fix else
               "nested maps are replaced wholesale instead of merged")
        for x in fix:
            rec = [y for y in ast.walk(x) if isinstance(y, ast.Call) and g.nodes_for(y) and ct in an.callees(ct, g.nodes_for(y)[0])][0]
            a = rec.args
            keyv = x.generators[0].target
            def idx(e, root):
                return isinstance(e, ast.Subscript) and isinstance(e.value, ast.Name) and e.value.id == root and isinstance(e.slice, ast.Name) \
                    and isinstance(keyv, ast.Name) and e.slice.id == keyv.id
            ok = len(a) == 2 and idx(a[0], bparam) and idx(a[1], cparam)
            ctx.ob("recursion.argument-order", ct, rec, ok, "recurses with (base value, included value)" if ok else
                   "the recursive merge swaps or replaces its arguments: nested included values lose")
            # keys restricted to those where both sides hold a map
            conds = [c for gen in ast.walk(x) if isinstance(gen, ast.comprehension) for c in gen.ifs]
            flat = []
            for c in conds:
                flat += c.values if isinstance(c, ast.BoolOp) and isinstance(c.op, ast.And) else [c]
            dict_tests = [c for c in flat if isinstance(c, ast.Call) and ast.unparse(c.func) == "isinstance" and len(c.args) == 2 and "dict" in ast.unparse(c.args[1])]
            ctx.ob("recursion.only-for-two-maps", ct, rec, len(dict_tests) >= 2, "recursion only when both sides are maps" if len(dict_tests) >= 2 else
                   "recursion is not restricted to map/map conflicts")
            # stored under the same key, into the returned copy
            stored = isinstance(getattr(x, "_parent", None), ast.Call) and isinstance(x._parent.func, ast.Attribute) and x._parent.func.attr == "update"
            elt = x.elt if not isinstance(x, ast.DictComp) else ast.Tuple(elts=[x.key, x.value], ctx=ast.Load())
            samek = isinstance(elt, ast.Tuple) and len(elt.elts) == 2 and isinstance(elt.elts[0], ast.Name) and isinstance(keyv, ast.Name) and elt.elts[0].id == keyv.id
            ctx.ob("same-key", ct, x, bool(stored or isinstance(x, ast.DictComp)) and samek, "stored under the visited key" if samek else "stored under a different key")
        recursive_shape = False
    elif recursive_shape and not any(isinstance(x, ast.For) for x in ast.walk(ct.node)):
        ctx.ob("shape", ct, "recursive merge", True, "merge written in a shape the precedence clauses do not read (no loop over the included tree, no "
               "{**base, **child}): precedence not decided for this spelling (purity still is)", nontrivial=False)
        ctx.note("combine_trees: unrecognised merge shape, C18.2 precedence clauses skipped")
        recursive_shape = False
    if recursive_shape:
        ret_names = {r.ast.value.id for r in rets if isinstance(r.ast.value, ast.Name)}
        stores = [n for n in g.nodes if n.kind == "assign" and isinstance(n.ast, ast.Assign) and any(
            isinstance(t, ast.Subscript) and isinstance(t.value, ast.Name) and t.value.id in ret_names for t in n.ast.targets)]
        if not stores:
            ctx.ob("included-wins", ct, "stores into the returned copy", False,
                   "combine_trees no longer stores included values directly into the tree it returns")
        loop = [n for n in g.nodes if n.kind == "for_iter" and isinstance(n.ast, ast.For)]
        okl = bool(loop) and all(any(isinstance(x, ast.Name) and x.id == cparam for x in ast.walk(h.ast.iter)) for h in loop)
        ctx.ob("iterates-child", ct, "for key, value in child.items()", okl, "every key of the included tree is visited" if okl else
               "combine_trees does not iterate over the included tree")
        # every key of the included tree leaves its mark: no way round the loop without a store into the returned copy (an included
        # null / scalar replaces what the including document had, whatever that was)
        from engine.flow import path_avoiding
        for h in loop:
            b0 = [s_ for s_, lbl in h.succ if lbl is True]
            if not b0:
                continue
            sset = set(stores)
            pskip = path_avoiding(an, ct, b0[0], lambda n, h=h: n is h, lambda n: n in sset, exceptions=False)
            ctx.ob("included-wins.every-key", ct, h.ast.iter, pskip is None,
                   "every key of the included tree is stored into the result" if pskip is None else
                   "a key of the included tree can be skipped without being stored (%s): the including document's value survives although the "
                   "included file sets the key" % " -> ".join("%s@%s" % (x.kind, x.lineno) for x in pskip[:6]), node=h)
        nrec = 0
        for s in stores:
            v = s.ast.value
            leaves = [("expr", v)] if isinstance(v, ast.Call) else value_sources(ct, v, s)
            plain_ok, plain_seen = True, False
            for k_, leaf in leaves:
                if k_ == "expr" and isinstance(leaf, ast.Call) and g.nodes_for(leaf) and ct in an.callees(ct, g.nodes_for(leaf)[0]):
                    nrec += 1
                    at = g.nodes_for(leaf)[0]
                    a = leaf.args
                    ok = len(a) == 2 and rooted_at_param(ct, a[0], {bparam}, at) and any(k == "iter" for k, _ in value_sources(ct, a[1], at))
                    ctx.ob("recursion.argument-order", ct, leaf, ok, "recurses with (base value, included value)" if ok else
                           "the recursive merge swaps or replaces its arguments: nested included values lose", node=at)
                    both = []
                    for t, tr in dominating_guards(an, ct, at):
                        if not tr:
                            continue
                        e = expand_aliases(ct, t.ast, t)      # `both_nested = isinstance(a, dict) and isinstance(b, dict)`
                        conj = e.values if isinstance(e, ast.BoolOp) and isinstance(e.op, ast.And) else [e]
                        both += [c for c in conj if isinstance(c, ast.Call) and ast.unparse(c.func) == "isinstance" and len(c.args) == 2
                                 and "dict" in ast.unparse(c.args[1])]
                    ctx.ob("recursion.only-for-two-maps", ct, leaf, len(both) >= 2, "recursion only when both sides are maps" if len(both) >= 2 else
                           "recursion is not restricted to map/map conflicts", node=at)
                else:
                    plain_seen = True
                    if k_ != "iter":
                        plain_ok = False
            if plain_seen:
                ctx.ob("included-wins", ct, s.ast, plain_ok, "the included tree's value is taken" if plain_ok else
                       "a non-recursive branch stores %s instead of the included value: the including document wins" % ast.unparse(v), node=s)
            # the key stored is the key visited
            t = s.ast.targets[0]
            okk = isinstance(t.slice, ast.Name) and any(k == "iter" for k, _ in value_sources(ct, t.slice, s))
            ctx.ob("same-key", ct, s.ast, okk, "stored under the visited key" if okk else "stored under a different key", node=s)
        ctx.ob("recursion.exists", ct, "nested maps merge recursively", nrec >= 1, "map/map conflicts are merged recursively" if nrec else
               "nested maps are replaced wholesale instead of merged")

    # include site
    g = an.cfg(inc)
    cnodes = [n for n in g.nodes if n.kind == "call" and ct in an.callees(inc, n)]
    ctx.need(bool(cnodes), "IncludeField.include no longer calls combine_trees")
    bp = inc.positional_params[4] if len(inc.positional_params) > 4 else None
    for n in cnodes:
        a = n.ast.args
        ok0 = len(a) == 2 and all(k == "param" and p == bp for k, p in value_sources(inc, a[0], n))
        ok1 = len(a) == 2 and any(k == "expr" and isinstance(pl, ast.Call) and any(e[0] == "PARSE" for nn in g.nodes_for(pl) for e in calls.direct(inc, nn))
                                  for k, pl in value_sources(inc, a[1], n))
        ctx.ob("include.argument-roles", inc, n.ast, ok0 and ok1,
               "combine_trees(including tree, parsed included file)" if ok0 and ok1 else
               "the roles of the two trees are swapped or wrong at the include site: the including document overrides the included file", node=n)
    for r in returns_of(an, inc):
        okr = any(k == "expr" and isinstance(pl, ast.Call) and ct in an.callees(inc, g.nodes_for(pl)[0]) for k, pl in value_sources(inc, r.ast.value, r))
        ctx.ob("include.returns-merge", inc, r.ast, okr, "returns the merged tree" if okr else "include does not return the merged tree", node=r)

    # ---------------------------------------------------------------- C18.3
    opens = [n for n in g.nodes if any(e[0] == "OPEN" for e in calls.direct(inc, n))]
    vals = {n for n in g.nodes if n.kind == "call" and isinstance(n.ast.func, ast.Attribute) and n.ast.func.attr == "validate"
            and isinstance(n.ast.func.value, ast.Name) and n.ast.func.value.id == inc.self_name}
    ctx.need(bool(opens), "IncludeField.include no longer opens the included file")
    for o in opens:
        p = must_pass(an, inc, o, lambda n: n in vals)
        ctx.ob("validate-before-open", inc, o.ast, p is None and bool(vals), "the path is validated by the field before it is opened" if p is None and vals else
               "the included path is opened without field validation (exists='file', startdir resolution)", node=o)
        # the validated path is the one opened
        okp = False
        if o.ast.args:
            def derives(e, depth=0):
                if depth > 5:
                    return False
                for k, pl in value_sources(inc, e, o):
                    if k == "expr" and isinstance(pl, ast.Call):
                        if any(pl is v.ast for v in vals):
                            return True
                        if any(x is v.ast for a in pl.args for x in ast.walk(a) for v in vals):
                            return True         # expanduser(self.validate(...)) written in one expression
                        if any(isinstance(x, ast.Name) and derives(x, depth + 1) for a in pl.args for x in ast.walk(a)):
                            return True
                return False
            okp = derives(o.ast.args[0])
        ctx.ob("opens-validated-path", inc, o.ast, okp, "what is opened is the validated (resolved) path" if okp else
               "the file opened is not the validated path (start directory / existence check bypassed)", node=o)
        mode = open_mode(o.ast)
        ctx.ob("open-binary", inc, o.ast, "b" in mode and "r" in mode, "read in binary mode like Config.load" if "b" in mode and "r" in mode else "included file opened with mode %r" % mode, node=o)
    pn = [n for n in g.nodes if any(e[0] == "PARSE" for e in calls.direct(inc, n))]
    okf = bool(pn) and all(isinstance(n.ast.func, ast.Attribute) and all(k == "param" for k, _ in value_sources(inc, n.ast.func.value, n)) for n in pn)
    ctx.ob("same-format", inc, "fmt.loads(config, content)", okf, "parsed with the formatter handed in by the including load" if okf else
           "the included file is not parsed with the including document's format")
    init = model.method("IncludeField", "__init__")
    sup = [x for x in ast.walk(init.node) if isinstance(x, ast.Call) and isinstance(x.func, ast.Attribute) and x.func.attr == "__init__"]
    okx = False
    okd = False
    for x in sup:
        kws = {k.arg: k.value for k in x.keywords}
        okx = isinstance(kws.get("exists"), ast.Constant) and kws["exists"].value == "file"
        okd = isinstance(kws.get("startdir"), ast.Name)
    ctx.ob("exists-file", init, "super().__init__(exists='file', startdir=startdir, ...)", okx and okd,
           "include paths must name an existing file and resolve against the start directory" if okx and okd else
           "IncludeField no longer demands an existing file / forwards the start directory")
    ff = model.method("FilenameField", "_validate")
    gf = an.cfg(ff)
    file_raise = False
    for n in gf.nodes:
        if n.kind == "raise":
            dg = dominating_guards(an, ff, n)
            if any(tr and isinstance(t.ast, ast.Compare) and isinstance(t.ast.comparators[0], ast.Constant) and t.ast.comparators[0].value == "file" for t, tr in dg) \
                    and any((not tr) and isinstance(t.ast, ast.Call) and ast.unparse(t.ast.func).endswith("isfile") for t, tr in dg):
                file_raise = True
    ctx.ob("exists-file.enforced", ff, "exists == 'file' and not isfile -> raise", file_raise, "a missing file is rejected" if file_raise else
           "FilenameField no longer rejects a missing file for exists='file'")
    sd = any(isinstance(x, ast.Call) and ast.unparse(x.func).endswith("join") and any(isinstance(a, ast.Attribute) and a.attr == "startdir" for a in x.args)
             for x in ast.walk(ff.node))
    ctx.ob("startdir.resolution", ff, "os.path.join(self.startdir, value)", sd, "relative paths resolve against the start directory" if sd else
           "relative include paths no longer resolve against the start directory")

    # ---------------------------------------------------------------- C18.4 _process_includes
    pi = model.method("Config", "_process_includes")
    g = an.cfg(pi)
    inc_calls = [n for n in g.nodes if n.kind == "call" and any(c.name == "include" for c in an.callees(pi, n))]
    rec_calls = [n for n in g.nodes if n.kind == "call" and pi in an.callees(pi, n)]
    ctx.need(bool(inc_calls) and bool(rec_calls), "_process_includes no longer includes / recurses")
    tparam = pi.positional_params[2]
    inc_asts = {id(n.ast) for n in inc_calls}

    def current_tree(e, node, need_all=False):
        """a name that holds the tree being built: the parameter or the result of an include, nothing else"""
        if not isinstance(e, ast.Name):
            return False
        srcs = value_sources(pi, e, node)
        ok_ = bool(srcs) and all((k == "param" and pl == tparam) or (k == "expr" and id(pl) in inc_asts) for k, pl in srcs)
        if ok_ and need_all:
            ok_ = inc_asts <= {id(pl) for k, pl in srcs if k == "expr"}
        return ok_
    for n in inc_calls:
        # the tree passed is the current tree, and the result becomes the current tree
        par = getattr(n.ast, "_parent", None)
        passes = len(n.ast.args) >= 4 and current_tree(n.ast.args[3], n)
        rebinds = passes and isinstance(par, ast.Assign) and any(isinstance(t, ast.Name) and t.id == n.ast.args[3].id for t in par.targets)
        ctx.ob("includes.chain", pi, n.ast, rebinds and passes, "each include merges into the tree produced by the previous one" if rebinds and passes else
               "the result of an include is dropped or a stale tree is passed on", node=n)
        fn_arg = n.ast.args[2] if len(n.ast.args) >= 3 else None
        okf = fn_arg is not None and any(k == "expr" and isinstance(pl, ast.Call) and isinstance(pl.func, ast.Attribute) and pl.func.attr == "get"
                                         for k, pl in value_sources(pi, fn_arg, n))
        ctx.ob("includes.filename-from-tree", pi, n.ast, okf, "the file name is the value the tree holds for the include field" if okf else
               "the include file name does not come from the tree", node=n)
    for r in rec_calls:
        for i in inc_calls:
            p = g.path(r, lambda x, i=i: x is i, may_raise=lambda x: False, from_successors=True)
            ctx.ob("includes.before-nested", pi, r.ast, p is None, "nested scopes are processed after this scope's includes" if p is None else
                   "a nested scope is processed before this scope's includes were merged: includes inside an included sub-tree are missed", node=r)
        par = getattr(r.ast, "_parent", None)
        stored = isinstance(par, ast.Assign) and any(isinstance(t, ast.Subscript) and current_tree(t.value, r, need_all=True) for t in par.targets)
        lk = lookup_key(pi, r.ast.args[1], r) if len(r.ast.args) >= 2 else None
        samekey = stored and lk is not None and ast.unparse(par.targets[0].slice) == ast.unparse(lk) and rooted_at_param(pi, r.ast.args[1], {tparam}, r)
        if not samekey and isinstance(par, ast.DictComp) and par.value is r.ast and lk is not None:
            # tree.update({key: self._process_includes(sub, tree[key], ...) for key, sub in nested if ...})
            upd = getattr(par, "_parent", None)
            un = [x for x in g.nodes if x.ast is upd]
            samekey = isinstance(upd, ast.Call) and isinstance(upd.func, ast.Attribute) and upd.func.attr == "update" and upd.args == [par] and not upd.keywords \
                and current_tree(upd.func.value, un[0] if un else r, need_all=True) and ast.unparse(par.key) == ast.unparse(lk) \
                and rooted_at_param(pi, r.ast.args[1], {tparam}, r)
        ctx.ob("nested.stored-back", pi, r.ast, bool(samekey), "the nested result replaces the nested tree under the same key" if samekey else
               "the result of processing a nested scope is not stored back under its key", node=r)
        oks = len(r.ast.args) >= 1 and any(k == "iter" for k, _ in value_sources(pi, r.ast.args[0], r))
        ctx.ob("nested.uses-sub-schema", pi, r.ast, oks, "recursion uses the nested schema" if oks else "recursion does not use the nested schema", node=r)
    for r in returns_of(an, pi):
        okr = current_tree(r.ast.value, r, need_all=True)
        ctx.ob("returns-tree", pi, r.ast, okr, "returns the merged tree" if okr else "_process_includes does not return the merged tree", node=r)
    from .paths import check_filename_resolution
    check_filename_resolution(ctx)

    # ---------------------------------------------------------------- C18.5 included files are parsed like the including document
    loads_fn = model.method("Config", "loads")
    kw = loads_fn.node.args.kwarg.arg if loads_fn.node.args.kwarg else None
    fparam = loads_fn.positional_params[2] if len(loads_fn.positional_params) > 2 else None
    ctx.need(kw is not None and fparam is not None, "Config.loads lost its format / **options parameters")
    nget = 0
    for x in ast.walk(loads_fn.node):
        if not isinstance(x, ast.Call):
            continue
        args, kws = None, None
        if ast.unparse(x.func).endswith("ConfigFormat.get"):
            args, kws = x.args, x.keywords
        elif ast.unparse(x.func).endswith("partial") and x.args and ast.unparse(x.args[0]).endswith("ConfigFormat.get"):
            args, kws = x.args[1:], x.keywords
        if args is None:
            continue
        nget += 1
        def is_param(e, pname):
            if not isinstance(e, ast.Name):
                return False
            if e.id == pname:
                return True
            srcs = value_sources(loads_fn, e, None)
            return bool(srcs) and all(k == "param" and p_ == pname for k, p_ in srcs)
        has_fmt = bool(args) and is_param(args[0], fparam)
        has_opts = any(k.arg is None and is_param(k.value, kw) for k in kws)
        ctx.ob("includes.same-format-options", loads_fn, x, has_fmt and has_opts,
               "the formatter is built from the caller's format and options" if has_fmt and has_opts else
               "a formatter is built %s: included files are parsed differently from the document that names them" % (
                   "without the caller's format options" if has_fmt else "for another format"))
    ctx.need(nget >= 1, "Config.loads no longer obtains a formatter from ConfigFormat.get")
