"""C12 -- defaults, user-defined status and reset behave as a consistent state machine."""
from __future__ import annotations

import ast

from engine.defuse import value_sources
from engine.flow import (dominating_guards, expand_aliases, must_pass, path_avoiding, reachable_from_entry,
                         same_name_value)
from engine.order import ESCAPE, OrderAnalysis
from engine.effects import ap_str
from .c01 import is_setdefault_impl, only_default_route
from .common import CALLS, STATE, container_mutations, not_fresh

META = {
    "explanation": (
        "The user-defined status is the complement of a set of keys kept next to the values. Decided "
        "structurally: every store into Config._data is paired, on every path to the normal exit (lifted to "
        "the callers when the storing function does not do it itself), with the mark event of the right "
        "polarity for the same owner -- add on the default route (functions reachable only from "
        "__setdefault__ implementations), discard on the user route; a mark is never set without the store; "
        "the unmark never precedes an escaping raise; the constructor sends keywords through _set_value and "
        "every other field through __setdefault__; every value-holding __setdefault__ implementation reaches "
        "_set_default_value(self._key, ...) on all normal paths; callable defaults are evaluated per access "
        "and never cached; reset_value re-runs __setdefault__ of exactly the named field; is_value_defined "
        "is the negated membership test."),
    "decided": ["C12.a store/mark pairing by route", "C12.b no mark without a store", "C12.c unmark never before an escaping raise",
                "C12.d constructor routing", "C12.e every value-holding __setdefault__ stores its own key through _set_default_value",
                "C12.f callable defaults evaluated per access, _default read nowhere else", "C12.g reset_value / is_value_defined glue",
                "C12.h per-configuration copies of list/dict defaults (shared with C13.2); every loaded key reaches _set_value (shared with C01.3)"],
    "not_decided": ["value equality of 'default restored' where the default is hashed or wrapped"],
}


def mark_nodes(an, fn, polarity, owner_ap=None):
    state = an.summary(STATE)
    out = []
    for n in an.cfg(fn).nodes:
        for ev in state.node_events(fn, n):
            if ev[0] == polarity and (owner_ap is None or ev[1] == owner_ap):
                out.append(n)
                break
    return out


def paired(an, fn, node, owner_ap, polarity, depth=0):
    """Every path from *node* to the normal exit of fn passes a mark event of *polarity* on owner;
    if fn does not do it, every caller must, after the call."""
    g = an.cfg(fn)
    marks = set(mark_nodes(an, fn, polarity, owner_ap))
    p = None
    if g.exit in reachable_from_entry(an, fn):
        p = g.path(node, lambda n: n is g.exit, may_raise=lambda n: an.node_may_raise(fn, n),
                   stop=lambda n: n in marks, from_successors=True)
    if p is None:
        return True, "followed by %s on %s on every path to the normal exit of %s" % (polarity, ap_str(owner_ap), fn.qualname)
    if marks and must_pass(an, fn, node, lambda x: x in marks) is None:
        # the other order: the mark is set on every path *to* the store (what happens if the store then fails is (b)/(c))
        return True, "preceded by %s on %s on every path to the store in %s" % (polarity, ap_str(owner_ap), fn.qualname)
    if depth >= 3:
        return False, "no %s follows in %s and the call chain is too deep" % (polarity, fn.qualname)
    callers = an.callers(fn)
    if not callers:
        return False, "%s stores into _data but never performs %s for it" % (fn.qualname, polarity)
    state = an.summary(STATE)
    whys = []
    for cf, cn in callers:
        for t in an.targets(cf, cn):
            if t.fn is not fn:
                continue
            b = an.bind_args(t, cf, cn)
            mapped = state.map_ap(owner_ap, t, cf, cn, b)
            if mapped[0] == "unknown" or not not_fresh(mapped):
                continue    # fresh object (under construction) or untracked: no obligation
            ok, why = paired(an, cf, cn, mapped, polarity, depth + 1)
            if not ok:
                return False, "via %s: %s" % (cf.site(cn.ast), why)
            whys.append(why)
    return True, "; ".join(sorted(set(whys))) or "no caller keeps the object"


def check(ctx):
    an, model = ctx.an, ctx.model
    state = an.summary(STATE)
    Config = model.cls("Config")
    # shared clauses: "a freshly built configuration exposes its declared default" needs per-configuration copies of
    # list/dict defaults (C13.2); "user-defined exactly when a value is loaded" needs every loaded key to reach
    # _set_value (C01.3)
    from . import c01, c13
    sub = type(ctx)(ctx.pid, ctx.an, ctx.tier)
    c01.check_load_tree(sub)
    c13.check_fresh_defaults(sub)
    ctx.obligations.extend(sub.obligations)

    # ---------------------------------------------------------------- (a)+(b)
    nstores = 0
    for fn in an.fns():
        for node in an.cfg(fn).nodes:
            for owner, op, key, val in container_mutations(an, fn, node, "_data"):
                if op != "setitem":
                    continue
                ap = an.access_path(fn, owner, node)
                nstores += 1
                top_ = fn
                while top_.parent is not None:
                    top_ = top_.parent
                if top_.cls is None:
                    # a store into some configuration's _data from outside Config (a helper that writes values back): the default
                    # marks of that same object have to be brought in line on the way out -- by name of the receiver, since the
                    # object is not one the access paths can follow
                    otxt = ast.unparse(owner)
                    g_ = an.cfg(fn)
                    syncs = {m for m in g_.nodes if m.kind == "call" and isinstance(m.ast.func, ast.Attribute) and m.ast.func.attr in ("add", "discard", "remove", "update", "difference_update")
                             and isinstance(m.ast.func.value, ast.Attribute) and m.ast.func.value.attr == "_default_value_keys"
                             and ast.unparse(m.ast.func.value.value) == otxt}
                    syncs |= {m for m in g_.nodes if m.kind == "assign" and isinstance(m.ast, ast.Assign) and any(
                        isinstance(t, ast.Attribute) and t.attr == "_default_value_keys" and ast.unparse(t.value) == otxt for t in m.ast.targets)}
                    ctx.ob("pairing.foreign-store", fn, node.ast, bool(syncs),
                           "the default marks of the configuration written to are updated by the same function" if syncs else
                           "%s writes into a configuration's _data (%s) and never touches its default marks: a value put back or "
                           "copied this way is reported as user-defined / default whatever it was" % (fn.qualname, ast.unparse(node.ast)[:50]), node=node)
                    continue
                default_route, _ = only_default_route(an, fn)
                pol = "MARK" if default_route else "UNMARK"
                ok, why = paired(an, fn, node, ap, pol)
                ctx.ob("pairing", fn, node.ast, ok,
                       ("%s route: " % ("default" if default_route else "user")) + why, node=node)
                # same key
                if ok:
                    for m in mark_nodes(an, fn, pol, ap):
                        if m.kind == "call" and m.ast.args and key is not None:
                            a0 = m.ast.args[0]
                            if isinstance(a0, (ast.List, ast.Tuple, ast.Set)) and len(a0.elts) == 1:
                                a0 = a0.elts[0]     # update([key])
                            same = same_name_value(fn, a0, m, key, node) or ast.unparse(a0) == ast.unparse(key)
                            ctx.ob("pairing.same-key", fn, m.ast, same,
                                   "marks the key that was stored" if same else
                                   "stores under %s but marks %s" % (ast.unparse(key), ast.unparse(m.ast.args[0])), node=m)
    ctx.need(nstores >= 3, "fewer than 3 stores into Config._data: vanished anchors")
    for fn in an.fns():
        g = an.cfg(fn)
        for n in g.nodes:
            evs = [e for e in state.direct(fn, n) if e[0] == "MARK"]
            for ev in evs:
                if fn.name == "__init__":
                    continue
                stores = {m for m in g.nodes if any(x[0] == "W_DATA" and x[1] == ev[1] for x in state.direct(fn, m))}
                p = must_pass(an, fn, n, lambda x: x in stores)
                how = "the default mark is set only after the value was stored"
                if p is not None and stores:
                    # or the store follows unconditionally, with nothing in between that could leave the mark alone
                    oracle_ = lambda x: an.node_may_raise(fn, x)
                    skip = g.path(n, lambda x: x is g.exit, may_raise=lambda x: False, stop=lambda x: x in stores, from_successors=True)
                    leak = g.path(n, lambda x: x is g.raise_exit, may_raise=oracle_, stop=lambda x: x in stores, from_successors=True)
                    if skip is None and leak is None:
                        p, how = None, "the value is stored right after the mark on every path (nothing in between can fail)"
                ctx.ob("mark-needs-store", fn, n.ast, p is None,
                       how if p is None else
                       "a key is marked as holding its default without a value being stored", node=n)

    # ---------------------------------------------------------------- (c)
    esc = OrderAnalysis(an, state, lambda e: e[0] in ("UNMARK", "MARK"), ESCAPE, keep_ap=not_fresh)
    for name in ("_set_value", "_set_default_value"):
        f = model.method("Config", name)
        hits = esc.violations(f)
        ctx.ob("mark-then-escape", f, "no (un)mark is followed by an escaping raise", not hits,
               "status changes only on the success path" if not hits else
               "%s at line %s can be followed by an exception leaving %s: a rejected assignment changes the "
               "user-defined status" % (hits[0].a_event[0], hits[0].a_node.lineno, f.qualname))

    # the last status event must have the route's polarity: no unmark after a mark on the default
    # route, no mark after the unmark on the user route
    is_mark = lambda e: e[0] == "MARK" and e[1] is not None and not_fresh(e[1])
    is_unmark = lambda e: e[0] in ("UNMARK", "MARKMUT") and e[1] is not None and not_fresh(e[1])
    mu = OrderAnalysis(an, state, is_mark, state, is_unmark, keep_ap=not_fresh)
    um = OrderAnalysis(an, state, is_unmark, state, is_mark, keep_ap=not_fresh)
    for f in [x for x in an.fns() if is_setdefault_impl(an, x)] + [model.method("Config", "_set_default_value")]:
        hits = mu.violations(f)
        ctx.ob("polarity.default-route", f, "no unmark after the default mark", not hits,
               "the default mark is the last status event" if not hits else
               "after marking the key as default, line %s clears the mark again: a fresh configuration reports the "
               "field as user-defined" % (hits[0].b_node.lineno if hits[0].b_node is not None else hits[0].a_node.lineno))
    for f in [model.method("Config", "_set_value")]:
        hits = um.violations(f)
        ctx.ob("polarity.user-route", f, "no default mark after the unmark", not hits,
               "the unmark is the last status event" if not hits else
               "after clearing the default mark the key is marked again: an accepted assignment is reported as not user-defined")

    # every accepted assignment clears the default mark: no way through _set_value to a normal return without the unmark (an
    # early exit for "nothing changed" -- `cfg.items += [...]` assigns the stored proxy back -- would leave the key reported as default)
    from engine.flow import returns_of
    sv_ = model.method("Config", "_set_value")
    gsv = an.cfg(sv_)
    unmark_nodes = {n for n in gsv.nodes if any(is_unmark(e) for e in state.node_events(sv_, n))}
    for r in returns_of(an, sv_):
        p_ = must_pass(an, sv_, r, lambda n: n in unmark_nodes)
        ctx.ob("user-route.unmarks-on-every-return", sv_, r.ast, p_ is None and bool(unmark_nodes),
               "the default mark is cleared before _set_value returns" if p_ is None and unmark_nodes else
               "_set_value can return without clearing the default mark (%s): an accepted assignment leaves the key reported as not user-defined"
               % " -> ".join("%s@%s" % (x.kind, x.lineno) for x in (p_ or [])[:6]), node=r)

    # ---------------------------------------------------------------- (d) constructor
    init = model.method("Config", "__init__")
    g = an.cfg(init)
    set_value = model.method("Config", "_set_value")
    kw = init.node.args.kwarg.arg if init.node.args.kwarg else None
    ctx.need(kw is not None, "Config.__init__ lost its **data parameter")
    loops = [n for n in g.nodes if n.kind == "for_iter" and isinstance(n.ast, ast.For)]
    data_loop = fields_loop = None
    for h in loops:
        names = {x.id for x in ast.walk(h.ast.iter) if isinstance(x, ast.Name)}
        attrs = {x.attr for x in ast.walk(h.ast.iter) if isinstance(x, ast.Attribute)}
        if kw in names and data_loop is None:
            data_loop = h
        elif "_fields" in attrs:
            fields_loop = h
    ctx.need(data_loop is not None and fields_loop is not None, "Config.__init__ loops not found: vanished anchors")
    b = [s for s, lbl in data_loop.succ if lbl is True][0]
    p = path_avoiding(an, init, b, lambda n: n is data_loop, lambda n: set_value in an.callees(init, n), exceptions=False)
    ctx.ob("ctor.keywords-via-set_value", init, data_loop.ast.iter, p is None,
           "every constructor keyword goes through _set_value" if p is None else "a keyword can bypass _set_value", node=data_loop)
    b = [s for s, lbl in fields_loop.succ if lbl is True][0]

    def is_setdefault_call(n):
        return any(c.name == "__setdefault__" for c in an.callees(init, n))

    def is_kw(e, at):
        if not isinstance(e, ast.Name):
            return False
        if e.id == kw:
            return True
        srcs = value_sources(init, e, at)
        return bool(srcs) and all(k == "param" and p_ == kw for k, p_ in srcs)

    def cut_in_data(a, bb, lbl):
        # the edge taken when the key WAS given as a keyword: `key in data` true / `key not in data` false
        if a.kind == "test" and isinstance(a.ast, ast.Compare) and len(a.ast.ops) == 1 and is_kw(a.ast.comparators[0], a):
            if isinstance(a.ast.ops[0], ast.In) and lbl is True:
                return False
            if isinstance(a.ast.ops[0], ast.NotIn) and lbl is False:
                return False
        return True

    p = path_avoiding(an, init, b, lambda n: n is fields_loop, is_setdefault_call, edge_filter=cut_in_data, exceptions=False)
    ctx.ob("ctor.defaults-for-the-rest", init, fields_loop.ast.iter, p is None,
           "every schema field not given as keyword receives field.__setdefault__(self)" if p is None else
           "a field can be skipped without being given as keyword: %s" % " -> ".join("%s@%s" % (x.kind, x.lineno) for x in p),
           node=fields_loop)
    # keywords are applied first: a default stored afterwards for the same key would overwrite the keyword's value and mark it as
    # default again -- every __setdefault__ in the fields loop runs only for keys that were not given (or defaults come first)
    from engine.flow import guard_atoms
    defaults_first = g.path(data_loop, lambda n: n is fields_loop, may_raise=lambda n: False) is None
    for n in g.nodes:
        if not is_setdefault_call(n) or n not in g.reachable([b], may_raise=lambda x: False, stop=lambda x: x is fields_loop):
            continue
        skipped = defaults_first
        for e, truth, _t in guard_atoms(an, init, n):
            if isinstance(e, ast.Compare) and len(e.ops) == 1 and is_kw(e.comparators[0], _t) and \
                    ((isinstance(e.ops[0], ast.In) and truth is False) or (isinstance(e.ops[0], ast.NotIn) and truth is True)):
                skipped = True
        ctx.ob("ctor.defaults-skip-given", init, n.ast, skipped,
               "the default is stored only for a key that was not given as keyword" if skipped else
               "the default is stored although the key was given as keyword: the keyword's value is overwritten and reported as default", node=n)

    # ---------------------------------------------------------------- (e) __setdefault__ implementations
    sdv = model.method("Config", "_set_default_value")
    impls = [f for f in an.fns() if is_setdefault_impl(an, f)]
    ctx.need(len(impls) >= 8, "fewer than 8 __setdefault__ implementations found")
    exempt_mixins = [model.cls("VirtualFieldMixin"), model.cls("InstanceMethodFieldMixin")]
    for f in impls:
        if f.cls.name == "BaseField":
            ctx.ob("setdefault.stores", f, "BaseField.__setdefault__", True, "abstract hook (no value of its own)", nontrivial=False)
            continue
        if any(f.cls.is_subclass_of(m) for m in exempt_mixins):
            wd = [e for e in state.fn_events(f) if e[0] in ("W_DATA", "MARK")]
            ctx.ob("setdefault.stores", f, "%s holds no value in _data" % f.cls.name, not wd,
                   "exempt: virtual / instance-method fields store nothing in _data" if not wd else
                   "a field kind that holds no value writes _data in __setdefault__", nontrivial=False)
            continue
        g = an.cfg(f)
        reach_sdv = lambda n: sdv in an.reachable_fns(an.callees(f, n)) if an.callees(f, n) else False
        sd_nodes = {n for n in g.nodes if reach_sdv(n)}
        p = path_avoiding(an, f, g.entry, lambda n: n is g.exit, lambda n: n in sd_nodes)
        ctx.ob("setdefault.stores", f, "%s reaches _set_default_value on every normal path" % f.qualname, p is None,
               "all normal paths store a default (directly or through super().__setdefault__)" if p is None else
               "a normal path leaves the field without any entry in _data: %s" %
               " -> ".join("%s@%s" % (x.kind, x.lineno) for x in p))
        for n in g.nodes:
            if n.kind == "call" and sdv in an.callees(f, n) and n.ast.args:
                a0 = n.ast.args[0]
                ok = isinstance(a0, ast.Attribute) and a0.attr == "_key" and isinstance(a0.value, ast.Name) and a0.value.id == f.self_name
                ctx.ob("setdefault.own-key", f, n.ast, ok,
                       "stores under its own key" if ok else "stores the default under %s, not self._key" % ast.unparse(a0), node=n)
    ok, why = only_default_route(an, sdv)
    ctx.ob("callers.default-route", sdv, "callers of Config._set_default_value", ok,
           "called only from __setdefault__ implementations" if ok else why)

    # ---------------------------------------------------------------- (f) callable defaults
    Field = model.cls("Field")
    prop = Field.methods.get("default")
    ctx.need(prop is not None and prop.is_property, "Field.default property vanished")
    g = an.cfg(prop)
    user_calls = [n for n in g.nodes if n.kind == "call" and isinstance(n.ast.func, ast.Attribute)
                  and n.ast.func.attr == "_default" and not n.ast.args]
    stores = [e for e in state.fn_events(prop) if e[0] in ("W_ATTR",) and e[1] is not None and e[1][0] == "self"]
    ok = bool(user_calls) and not stores
    ctx.ob("default.per-access", prop, "Field.default", ok,
           "a callable default is invoked on every access and nothing is cached on the field" if ok else
           ("the result of a callable default is cached on the field (shared between configurations)" if stores else
            "Field.default no longer calls a callable default"))
    for f in an.fns():
        if f is prop or (f.name == "__init__" and f.cls is Field):
            continue
        for x in ast.walk(f.node):
            if isinstance(x, ast.Attribute) and x.attr == "_default" and isinstance(x.ctx, ast.Load) \
                    and model.enclosing_function(x) is f:
                bt = an.ft(f).type_of(x.value, an.ft(f).env_for(x))
                if bt != "ANY" and not any(isinstance(a, str) and a in model.classes and model.classes[a].is_subclass_of(Field) for a in bt):
                    continue
                ctx.ob("default.raw-read", f, x, False,
                       "%s reads Field._default directly: a callable default would be stored unevaluated / shared" % f.qualname, node=x)

    # ---------------------------------------------------------------- (g) reset_value / is_value_defined
    rv = model.function("support", "reset_value")
    g = an.cfg(rv)
    sd_calls = [n for n in g.nodes if n.kind == "call" and any(c.name == "__setdefault__" for c in an.callees(rv, n))]
    ctx.need(bool(sd_calls), "reset_value no longer calls __setdefault__: vanished anchor")
    p = path_avoiding(an, rv, g.entry, lambda n: n is g.exit, lambda n: n in sd_calls)
    ctx.ob("reset.reruns-default", rv, "reset_value", p is None,
           "every normal path re-runs field.__setdefault__(config)" if p is None else "reset can return without restoring the default")
    for n in sd_calls:
        recv = n.ast.func.value
        okr = False
        cfg_arg = n.ast.args[0] if n.ast.args else None
        for kind, payload in value_sources(rv, recv, n):
            if kind == "expr" and isinstance(payload, ast.Call) and isinstance(payload.func, ast.Attribute) \
                    and payload.func.attr == "_get_field" and cfg_arg is not None \
                    and same_name_value(rv, payload.func.value, None, cfg_arg, n):
                okr = True
            else:
                okr = False
                break
        ctx.ob("reset.named-field", rv, n.ast, okr,
               "the field looked up under the given key on the same (sub)configuration" if okr else
               "__setdefault__ is not applied to the field looked up on the configuration it is given", node=n)
    nsd = len([n for n in g.nodes if n.kind == "call" and any(c.name in ("__setdefault__", "_set_default_value", "_set_value") for c in an.callees(rv, n))])
    in_loop = any(g.path(n, lambda x: x is n, may_raise=lambda x: False, from_successors=True) for n in sd_calls)
    ctx.ob("reset.touches-one-field", rv, "reset_value", nsd == 1 and not in_loop,
           "exactly one field is reset" if nsd == 1 and not in_loop else "reset_value resets more than the named field")

    ivd = model.function("support", "is_value_defined")
    rets = [n for n in an.cfg(ivd).nodes if n.kind == "return"]
    ok = bool(rets)
    for r in rets:
        v = expand_aliases(ivd, r.ast.value, r) if r.ast.value is not None else None
        # X._default_value_keys.isdisjoint((key,)) / .isdisjoint([key]) / .isdisjoint({key})  ==  key not in X._default_value_keys
        if isinstance(v, ast.Call) and isinstance(v.func, ast.Attribute) and v.func.attr == "isdisjoint" and isinstance(v.func.value, ast.Attribute) \
                and v.func.value.attr == "_default_value_keys" and len(v.args) == 1 and isinstance(v.args[0], (ast.Tuple, ast.List, ast.Set)) \
                and len(v.args[0].elts) == 1:
            v = ast.Compare(left=v.args[0].elts[0], ops=[ast.NotIn()], comparators=[v.func.value])
        good = isinstance(v, ast.Compare) and len(v.ops) == 1 and isinstance(v.ops[0], ast.NotIn) \
            and isinstance(v.comparators[0], ast.Attribute) and v.comparators[0].attr == "_default_value_keys"
        neg = isinstance(v, ast.UnaryOp) and isinstance(v.op, ast.Not) and isinstance(v.operand, ast.Compare) \
            and isinstance(v.operand.ops[0], ast.In) and isinstance(v.operand.comparators[0], ast.Attribute) \
            and v.operand.comparators[0].attr == "_default_value_keys"
        ok = ok and (good or neg)
    cparam = ivd.positional_params[0]
    for r in rets:
        for x in ast.walk(r.ast.value) if r.ast.value is not None else []:
            if isinstance(x, ast.Attribute) and x.attr == "_default_value_keys":
                srcs = value_sources(ivd, x.value, r)
                resolved = any(k == "expr" and isinstance(pl, ast.Subscript) and isinstance(pl.value, ast.Name)
                               and any(k2 == "param" and p2 == cparam for k2, p2 in value_sources(ivd, pl.value, None) or [("param", pl.value.id)] if True)
                               for k, pl in srcs)
                ctx.ob("defined.owner-resolved", ivd, x, resolved,
                       "for a dotted key the marks consulted are those of the sub-configuration the path leads to" if resolved else
                       "is_value_defined consults the default marks of the configuration it was given, not of the sub-configuration "
                       "a dotted key leads to", node=r)
    ctx.ob("defined.is-complement", ivd, "is_value_defined", ok,
           "user-defined == key not in the default-mark set" if ok else
           "is_value_defined is no longer the complement of the default-mark set")
