"""C02 -- saving and re-loading a configuration reproduces it exactly, in every format."""
from __future__ import annotations

import ast

from engine.defuse import value_sources
from engine.flow import (dominating_guards, must_pass, path_avoiding, reachable_from_entry, returns_of,
                         same_name_value)
from .common import CALLS, open_mode, open_path_expr
from .links import check_links

def _is_self(fn, e, at):
    """the method's own object, or a local copy of it (an inlined helper's parameter)"""
    if e.id == fn.self_name:
        return True
    srcs = value_sources(fn, e, at)
    return bool(srcs) and all(k == "param" and pl == fn.self_name for k, pl in srcs)


META = {
    "explanation": (
        "Round-trip equality itself is value-level and not decided. Decided are the structural necessary "
        "conditions in the repository's own code: the typed containers' to_python applies the item/key/value "
        "field's to_python element-wise exactly where to_basic applied its to_basic (sibling agreement); list "
        "items that are configurations are rendered with to_tree and re-loaded with load_tree; every "
        "sub-configuration built during a load is linked to its parent before it is loaded or stored; "
        "to_tree never emits instance methods, emits keys absent from _data only as requested virtual fields, "
        "and never stores a raw in-memory value in the tree; load_tree decodes Field values with to_python "
        "before the validated store; dumps/loads/save/load pass the tree between the same stages in the same "
        "order with binary files and expanded paths."),
    "decided": ["C02.1 container codecs symmetric (AGREE to_basic/to_python for ListField, DictField)",
                "C02.3 sub-configurations linked to the parent before load/store",
                "C02.4 no instance methods / unrequested virtual fields / raw values in the tree",
                "C02.5 load_tree decodes with to_python before the store; dumps/loads/save/load glue",
                "C02.6 format wiring (shared with C04.1-4,6)",
                "C02.7 a non-empty secret is written as the record of this call's KeyFile.encrypt under cfg._keyfile (shared with C03.1)"],
    "not_decided": ["equality of the re-loaded values for all states in all five formats (json/yaml/bson/minidom/pickle inverse laws)",
                    "scalar codec inverse pairs are decided under C05"],
}


def pth(p):
    return " -> ".join("%s@%s" % (x.kind, x.lineno) for x in p[:14])


def codec_attrs(an, fn, which):
    """self-attributes whose .<which>(...) is called inside fn, with whether the call is applied
    element-wise (inside a comprehension / loop over the value parameter)."""
    out = {}
    g = an.cfg(fn)
    vparam = fn.positional_params[2] if len(fn.positional_params) >= 3 else None
    for n in g.nodes:
        if n.kind != "call":
            continue
        c = n.ast
        if not (isinstance(c.func, ast.Attribute) and c.func.attr == which):
            continue
        recv = c.func.value
        if isinstance(recv, ast.Name):
            rs = value_sources(fn, recv, n)
            if len(rs) == 1 and rs[0][0] == "expr" and isinstance(rs[0][1], ast.Attribute):
                recv = rs[0][1]        # item_field = self.field
        if isinstance(recv, ast.Attribute) and isinstance(recv.value, ast.Name) and recv.value.id == fn.self_name:
            # element-wise: the converted operand comes from iterating the value parameter
            elementwise = False
            if len(c.args) >= 2:
                for kind, payload in value_sources(fn, c.args[1], n):
                    if kind == "iter":
                        it = payload[0]
                        base = it.func.value if isinstance(it, ast.Call) and isinstance(it.func, ast.Attribute) else it
                        if isinstance(base, ast.Name) and any(k == "param" and p == vparam or k == "expr" for k, p in value_sources(fn, base, payload[2])):
                            elementwise = True
            out[recv.attr] = out.get(recv.attr, False) or elementwise
    # the bound method handed to functools.partial and applied per element later: partial(self.<attr>.<which>, cfg)
    for x in ast.walk(fn.node):
        if isinstance(x, ast.Call) and ast.unparse(x.func).split(".")[-1] == "partial" and x.args and isinstance(x.args[0], ast.Attribute) \
                and x.args[0].attr == which and isinstance(x.args[0].value, ast.Attribute) and isinstance(x.args[0].value.value, ast.Name) \
                and x.args[0].value.value.id == fn.self_name:
            par = getattr(x, "_parent", None)
            tgt = par.targets[0].id if isinstance(par, ast.Assign) and len(par.targets) == 1 and isinstance(par.targets[0], ast.Name) else None
            applied = False
            for y in ast.walk(fn.node):
                if isinstance(y, (ast.GeneratorExp, ast.ListComp, ast.DictComp, ast.For)):
                    for z in ast.walk(y):
                        if isinstance(z, ast.Call) and isinstance(z.func, ast.Name) and any(
                                k == "expr" and pl is x for k, pl in value_sources(fn, z.func, None)):
                            applied = True
            out[x.args[0].value.attr] = out.get(x.args[0].value.attr, False) or applied
    return out


def check_container_items_encoded(ctx):
    """Typed containers convert *every* item through the item field's codec whenever the item field is a Field: the
    functions are specialised for "typed, non-empty, item field is a Field" and everything they can return on the
    feasible paths has to be built from per-item codec calls.  (The item codec is where secrets are encrypted, bytes
    encoded, digests rendered: a shortcut around it writes the in-memory form.)"""
    from engine.specialize import Spec
    an, model = ctx.an, ctx.model
    for cname, which, attrs in (("ListField", "to_basic", ("field",)), ("ListField", "to_python", ("field",)),
                                ("DictField", "to_basic", ("key_field", "value_field")), ("DictField", "to_python", ("key_field", "value_field"))):
        f = model.method(cname, which)
        vp = f.positional_params[2]
        ft = an.ft(f)

        def is_value(e, node):
            if not isinstance(e, ast.Name):
                return False
            srcs = value_sources(f, e, node)
            return bool(srcs) and all(k == "param" and p == vp for k, p in srcs)

        def held_exprs(e, f=f):
            """what a local holds, looking through `a, b = (x, y)`"""
            out_ = []
            for k, pl in value_sources(f, e, None):
                if k == "unpack" and isinstance(pl[0], (ast.Tuple, ast.List)) and pl[1] is not None and pl[1] < len(pl[0].elts):
                    out_.append(("expr", pl[0].elts[pl[1]]))
                else:
                    out_.append((k, pl))
            return out_

        def is_item_field(e, f=f):
            if isinstance(e, ast.Attribute) and e.attr in ("field", "key_field", "value_field", "_use_proxy") and isinstance(e.value, ast.Name) \
                    and e.value.id == f.self_name:
                return True
            if isinstance(e, ast.Name):       # item_field = self.field
                srcs = held_exprs(e)
                return bool(srcs) and all(k == "expr" and isinstance(pl, ast.Attribute) and is_item_field(pl) for k, pl in srcs)
            return False

        def decide(e, node):
            if is_value(e, node):
                return True                 # non-empty
            if isinstance(e, ast.Compare) and len(e.ops) == 1 and isinstance(e.comparators[0], ast.Constant) and e.comparators[0].value is None:
                if is_value(e.left, node) or is_item_field(e.left):
                    return isinstance(e.ops[0], (ast.IsNot, ast.NotEq))
            if is_item_field(e):
                return True
            if isinstance(e, ast.Call) and isinstance(e.func, ast.Name) and e.func.id == "isinstance" and len(e.args) == 2:
                spec = ft.class_spec(e.args[1], {}) or []
                if is_item_field(e.args[0]) and spec:
                    return any(c_ in ("Field", "BaseField") for c_ in spec)      # a plain Field: not a Schema, not AnyField
                if is_value(e.args[0], node) and spec:
                    want = "list" if cname == "ListField" else "dict"
                    return want in spec or (want == "list" and "ListProxy" in spec) or (want == "dict" and "DictProxy" in spec)
            if isinstance(e, ast.Call) and isinstance(e.func, ast.Name) and e.func.id == "isconfigtype" and e.args and is_item_field(e.args[0]):
                return False
            return None
        sp = Spec(an, f, decide)
        rets = sp.normal_returns()
        ctx.need(bool(rets), "%s.%s: no return reachable for a typed, non-empty container" % (cname, which))
        for r in rets:
            missing = []
            exprs = [p for k, p in sp.sources(r.ast.value, r) if k == "expr"] if r.ast.value is not None else []
            # a proxy constructor wraps the converted data: look through its arguments
            todo, seen, leaves = list(exprs), set(), []
            while todo:
                e = todo.pop()
                if id(e) in seen:
                    continue
                seen.add(id(e))
                leaves.append(e)
                if isinstance(e, ast.Name):
                    # a stored item held in a local first: basic_key = key_field.to_basic(cfg, key); basic[basic_key] = ...
                    todo += [p for k, p in sp.sources(e, None) if k == "expr" and p is not e]
                if isinstance(e, ast.Call):
                    for a in e.args:
                        if isinstance(a, ast.Name):
                            todo += [p for k, p in sp.sources(a, sp.where.get(id(e)) or r) if k == "expr"]
                if isinstance(e, (ast.List, ast.Dict)) and not getattr(e, "elts", None) and not getattr(e, "keys", None):
                    # an accumulator filled in a loop: what is appended / stored into it
                    for m in sp.g.nodes:
                        if m not in sp.nodes:
                            continue
                        if m.kind == "call" and isinstance(m.ast.func, ast.Attribute) and m.ast.func.attr in ("append", "add", "extend", "update", "insert") \
                                and isinstance(m.ast.func.value, ast.Name) and any(p is e for k, p in sp.sources(m.ast.func.value, m)):
                            todo += list(m.ast.args)
                        if m.kind == "assign" and isinstance(m.ast, ast.Assign):
                            for t in m.ast.targets:
                                if isinstance(t, ast.Subscript) and isinstance(t.value, ast.Name) and any(p is e for k, p in sp.sources(t.value, m)):
                                    todo += [t.slice, m.ast.value]
            for attr in attrs:
                hit = False
                for e in leaves:
                    for x in ast.walk(e):
                        if isinstance(x, ast.Call) and isinstance(x.func, ast.Attribute) and x.func.attr == which:
                            recv_ = x.func.value
                            if isinstance(recv_, ast.Name):
                                rs = held_exprs(recv_)
                                if len(rs) == 1 and rs[0][0] == "expr" and isinstance(rs[0][1], ast.Attribute):
                                    recv_ = rs[0][1]        # item_field = self.field;  key_field, value_field = (self.key_field, self.value_field)
                            if isinstance(recv_, ast.Attribute) and recv_.attr == attr and isinstance(recv_.value, ast.Name) and recv_.value.id == f.self_name:
                                hit = True
                        # the codec applied through a local bound to functools.partial(self.<attr>.<which>, cfg)
                        if isinstance(x, ast.Call) and isinstance(x.func, ast.Name):
                            fs = sp.sources(x.func, sp.where.get(id(e)) or r)
                            if fs and all(k == "expr" and isinstance(pl, ast.Call) and ast.unparse(pl.func).split(".")[-1] == "partial" and pl.args
                                          and isinstance(pl.args[0], ast.Attribute) and pl.args[0].attr == which and isinstance(pl.args[0].value, ast.Attribute)
                                          and pl.args[0].value.attr == attr for k, pl in fs):
                                hit = True
                if not hit:
                    missing.append(attr)
            ctx.ob("container.items-through-codec", f, r.ast, not missing,
                   "every item goes through self.%s.%s" % ("/".join(attrs), which) if not missing else
                   "%s.%s can return %s without applying self.%s.%s to the items: secrets, bytes and digests inside the container are "
                   "%s in their in-memory form" % (cname, which, ast.unparse(r.ast.value)[:40], missing[0], which,
                                                  "written" if which == "to_basic" else "kept"), node=r)


def alias_names(fn, expr, node, _depth=0):
    """Local names the value of expr may be held under (through plain name-to-name copies)."""
    from engine.defuse import reaching_defs
    out = set()
    if not isinstance(expr, ast.Name) or _depth > 6:
        return out
    out.add(expr.id)
    rd = reaching_defs(fn)
    at = node or rd.node_of(expr)
    if at is None:
        return out
    for d in rd.reaching(at, expr.id):
        if d.kind == "assign" and isinstance(d.value, ast.Name):
            out |= alias_names(fn, d.value, d.node, _depth + 1)
    return out


def check(ctx):
    an, model = ctx.an, ctx.model
    calls = an.summary(CALLS)
    Config = model.cls("Config")

    # ---------------------------------------------------------------- C02.1
    for cname in ("ListField", "DictField"):
        tb = model.method(cname, "to_basic")
        tp = model.method(cname, "to_python")
        enc = codec_attrs(an, tb, "to_basic")
        dec = codec_attrs(an, tp, "to_python")
        ctx.need(bool(enc), "%s.to_basic no longer encodes items through the item field: vanished anchor" % cname)
        for attr in sorted(set(enc) | set(dec)):
            ok = attr in enc and attr in dec and dec.get(attr) and enc.get(attr)
            if attr in enc and attr not in dec:
                why = ("to_basic encodes every element with self.%s.to_basic(...) but to_python never applies "
                       "self.%s.to_python(...): items with a non-trivial on-disk form (bytes, digests, secrets) come "
                       "back in their encoded form" % (attr, attr))
            elif attr in dec and attr not in enc:
                why = "to_python decodes with self.%s.to_python but to_basic does not encode with it" % attr
            elif not ok:
                why = "self.%s codec is not applied element-wise on both sides" % attr
            else:
                why = "elements are encoded with self.%s.to_basic and decoded with self.%s.to_python" % (attr, attr)
            ctx.ob("agree.container-codec", tp, "%s: self.%s.to_basic <-> self.%s.to_python" % (cname, attr, attr), bool(ok), why)
        # the decoded elements must be what is validated / returned
        if dec:
            g = an.cfg(tp)
            rets = returns_of(an, tp)
            used = False
            for r in rets:
                for kind, payload in value_sources(tp, r.ast.value, r):
                    if kind != "expr":
                        continue
                    cands = [payload] + (list(payload.args) if isinstance(payload, ast.Call) else [])
                    for a in cands:
                        for k2, p2 in value_sources(tp, a, r):
                            if k2 == "expr" and any(isinstance(x, ast.Call) and isinstance(x.func, ast.Attribute)
                                                    and x.func.attr == "to_python" for x in ast.walk(p2)):
                                used = True
                        # accumulated element by element: acc.append(<decoded>) / acc[k] = <decoded>
                        for nm in alias_names(tp, a, r):
                            for x in ast.walk(tp.node):
                                filled = None
                                if isinstance(x, ast.Call) and isinstance(x.func, ast.Attribute) and x.func.attr in ("append", "add", "__setitem__", "insert") \
                                        and isinstance(x.func.value, ast.Name) and x.func.value.id == nm:
                                    filled = x.args
                                if isinstance(x, ast.Assign) and any(isinstance(t, ast.Subscript) and isinstance(t.value, ast.Name) and t.value.id == nm for t in x.targets):
                                    filled = [x.value] + [t.slice for t in x.targets if isinstance(t, ast.Subscript)]
                                if filled:
                                    # the stored element, directly or held in a local first (val = value_field.to_python(...); acc[key] = val)
                                    exprs_ = list(filled)
                                    for f in filled:
                                        if isinstance(f, ast.Name):
                                            exprs_ += [p3 for k3, p3 in value_sources(tp, f, None) if k3 == "expr" and isinstance(p3, ast.AST)]
                                    if any(isinstance(y, ast.Call) and isinstance(y.func, ast.Attribute) and y.func.attr == "to_python"
                                           for f in exprs_ for y in ast.walk(f)):
                                        used = True
            ctx.ob("agree.container-codec.used", tp, "%s.to_python returns the decoded elements" % cname, used,
                   "the returned proxy is built from the decoded elements" if used else "decoded elements are computed but not used")
    # configurations in lists: to_tree <-> load_tree
    ltb = model.method("ListField", "to_basic")
    lpv = model.method("ListProxy", "_validate")
    has_tt = any(e[0] == "TO_TREE" for n in an.cfg(ltb).nodes for e in calls.direct(ltb, n))
    has_lt = any(e[0] == "LOAD_TREE" for n in an.cfg(lpv).nodes for e in calls.direct(lpv, n))
    to_tree = model.method("Config", "to_tree")
    has_tt = has_tt or any(e[0] == "TO_TREE" for n in an.cfg(to_tree).nodes for e in calls.direct(to_tree, n)
                           if n.kind == "call" and any(k == "iter" for k, _ in value_sources(to_tree, n.ast.func.value, n)))
    ctx.ob("agree.list-of-configs", lpv, "items rendered with to_tree are re-loaded with load_tree", has_tt and has_lt,
           "lists of configurations are written as trees and dict items are loaded into a new item configuration" if has_tt and has_lt else
           "lists of configurations are not symmetric (to_tree: %s, load_tree: %s)" % (has_tt, has_lt))

    # ---------------------------------------------------------------- C02.3
    check_links(ctx, "link")
    # C02.7 an encrypted value re-loads with the configuration's key file only if it was encrypted with it, in this call
    from .c03 import check_secret_encrypted_now
    check_secret_encrypted_now(ctx)
    check_container_items_encoded(ctx)

    # ---------------------------------------------------------------- C02.6 "in every format": the format wiring decided
    # under C04 (tag tables, payload written and read verbatim, root key / root tag symmetry, wrapper pairs) is a
    # necessary condition of the round trip as well
    from . import c04
    sub = type(ctx)(ctx.pid, ctx.an, ctx.tier)
    c04.check(sub)
    ctx.obligations.extend(o for o in sub.obligations if o.rule.split(".", 1)[1].split(".")[0] in ("xml", "yaml", "wrapper", "dispatch"))

    # "encrypted values included": the cipher pairs decided under C08 (XOR keystream over the whole data, AES direction /
    # finalisation / IV agreement) are necessary for a secret to come back
    from . import c08
    sub = type(ctx)(ctx.pid, ctx.an, ctx.tier)
    c08.check(sub)
    ctx.obligations.extend(o for o in sub.obligations if o.rule.split(".", 1)[1].split(".")[0] in ("xor", "agree"))

    # "with the same key file": every (sub)configuration resolves its key file by looking it up through its ancestors at the
    # time of use (C03.3) -- a key file pinned on first use makes a moved / re-parented sub-configuration unloadable
    from . import c03
    sub = type(ctx)(ctx.pid, ctx.an, ctx.tier)
    c03.check(sub)
    ctx.obligations.extend(o for o in sub.obligations if o.rule.split(".", 1)[1].split(".")[0] in ("keyfile", "encrypt"))

    # binary values: what BytesField writes is text on every path (the tree is plain data) and its codec pairs invert (shared with C05)
    from . import c05
    sub5 = type(ctx)(ctx.pid, ctx.an, ctx.tier)
    c05.check_bytes_codec(sub5)
    ctx.obligations.extend(o for o in sub5.obligations if o.rule.split(".", 1)[1].startswith("codec.bytes"))

    # ---------------------------------------------------------------- C02.4 to_tree contents
    g = an.cfg(to_tree)
    reach = reachable_from_entry(an, to_tree)
    stores = []
    tree_names = set()
    for r in returns_of(an, to_tree):
        if isinstance(r.ast.value, ast.Name):
            tree_names.add(r.ast.value.id)
    for n in g.nodes:
        if n.kind == "assign" and n in reach and isinstance(n.ast, ast.Assign):
            for t in n.ast.targets:
                if isinstance(t, ast.Subscript) and isinstance(t.value, ast.Name) and t.value.id in tree_names:
                    stores.append(n)
    ctx.need(bool(stores), "Config.to_tree no longer stores into the tree it returns: vanished anchor")
    loop_heads = {n for n in g.nodes if n.kind == "for_iter" and isinstance(n.ast, ast.For)}
    oracle = lambda n: an.node_may_raise(to_tree, n)
    ft = an.ft(to_tree)

    def spec_of(t):
        e = t.ast
        if isinstance(e, ast.Call) and isinstance(e.func, ast.Name) and e.func.id == "isinstance" and len(e.args) == 2:
            return ft.class_spec(e.args[1], ft.env_in.get(t) or {}) or []
        return []

    # which kinds of field reach a tree store, decided as a table: to_tree specialised for (kind of field, key present in
    # _data, virtual output requested)
    from engine.specialize import Spec
    KIND_CLS = {"plain": "StringField", "virtual": "VirtualField", "method": "InstanceMethodField", "schema": "Schema"}

    def tree_decider(kind, present, want_virtual):
        kc = model.cls(KIND_CLS[kind])

        def is_field_var(e, node):
            return isinstance(e, ast.Name) and any(k == "iter" for k, _ in value_sources(to_tree, e, node))

        def decide(e, node):
            if isinstance(e, ast.Call) and isinstance(e.func, ast.Name) and e.func.id == "isinstance" and len(e.args) == 2 and is_field_var(e.args[0], node):
                spec = ft.class_spec(e.args[1], {}) or []
                if spec and all(c in model.classes for c in spec):
                    return any(kc.is_subclass_of(model.classes[c]) for c in spec)
            if isinstance(e, ast.Compare) and len(e.ops) == 1 and isinstance(e.ops[0], (ast.In, ast.NotIn)) \
                    and isinstance(e.comparators[0], ast.Attribute) and e.comparators[0].attr == "_data":
                return present if isinstance(e.ops[0], ast.In) else (not present)
            if isinstance(e, ast.Name) and e.id == "virtual" and all(k == "param" for k, _ in value_sources(to_tree, e, node)):
                return want_virtual
            return None
        return decide
    expected = {}
    for kind in KIND_CLS:
        for present in (True, False):
            for wv in (True, False):
                if kind == "method":
                    want = False
                elif present:
                    want = True
                else:
                    want = (kind == "virtual" and wv)
                expected[(kind, present, wv)] = want
    for (kind, present, wv), want in sorted(expected.items()):
        if kind in ("virtual", "method") and present:
            continue        # virtual / method fields never have an entry in _data
        sp = Spec(an, to_tree, tree_decider(kind, present, wv))
        got = any(st in sp.normal for st in stores)
        what = "a %s field, key %s _data, virtual output %s" % (kind, "in" if present else "not in", "requested" if wv else "not requested")
        rule = "tree.no-instance-methods" if kind == "method" else "tree.virtual-on-request"
        ctx.ob(rule, to_tree, what, got == want,
               ("emitted" if want else "left out") if got == want else
               ("%s is emitted%s" % (what, ": an instance-method field can reach the tree store" if kind == "method" else
                                    ": a key without a stored value can be emitted although it is not a requested virtual field") if got else
                "%s is left out of the tree" % what))
    for st in stores:
        # never the raw in-memory value
        val = st.ast.value
        raw = []
        for kind, payload in value_sources(to_tree, val, st):
            if kind == "expr" and isinstance(payload, ast.Call) and isinstance(payload.func, ast.Attribute) and payload.func.attr == "__getval__":
                raw.append(payload)
        ctx.ob("tree.no-raw-values", to_tree, st.ast, not raw,
               "the stored value is None, a nested tree, the mask or a field.to_basic(...) result" if not raw else
               "the in-memory value %s is stored in the tree without being encoded" % ast.unparse(raw[0]), node=st)

    # defaults: virtual output and masking are opt-in
    for fname in ("to_tree", "dumps"):
        f = model.method("Config", fname)
        a = f.node.args
        pos = [x.arg for x in list(a.posonlyargs) + list(a.args)]
        dmap = dict(zip(pos[len(pos) - len(a.defaults):], a.defaults))
        dmap.update({k.arg: d for k, d in zip(a.kwonlyargs, a.kw_defaults) if d is not None})
        okv = isinstance(dmap.get("virtual"), ast.Constant) and dmap["virtual"].value is False
        okm = isinstance(dmap.get("sensitive_mask"), ast.Constant) and dmap["sensitive_mask"].value is None
        ctx.ob("tree.defaults", f, "virtual=False, sensitive_mask=None", okv and okm,
               "virtual fields and masking are opt-in" if okv and okm else
               "Config.%s defaults to %s: a plain save contains virtual fields / masked values" % (
                   fname, "virtual=%s" % ast.unparse(dmap["virtual"]) if not okv and "virtual" in dmap else "a mask"))
    # the encoder receives (this configuration, the value currently held)
    for n in g.nodes:
        if n.kind == "call" and any(e[0] == "CODEC" and e[2] == "to_basic" for e in calls.direct(to_tree, n)):
            a = n.ast.args
            ok = len(a) == 2 and isinstance(a[0], ast.Name) and _is_self(to_tree, a[0], n) and any(
                k == "expr" and isinstance(pl, ast.Call) and isinstance(pl.func, ast.Attribute) and pl.func.attr == "__getval__"
                for k, pl in value_sources(to_tree, a[1], n))
            ctx.ob("tree.encoder-args", to_tree, n.ast, ok, "field.to_basic(self, <value held>)" if ok else
                   "the encoder is not called with (this configuration, the value held)", node=n)

    # ---------------------------------------------------------------- C02.5 glue
    lt = model.method("Config", "load_tree")
    g = an.cfg(lt)
    set_value = model.method("Config", "_set_value")
    sv_nodes = [n for n in g.nodes if set_value in an.callees(lt, n)]
    dec = {n for n in g.nodes if any(e[0] == "CODEC" and e[2] == "to_python" for e in calls.direct(lt, n))}
    indirect = [n for n in g.nodes if n not in sv_nodes and any(
        c.cls is not None and c.cls.name == "Config" and c.name in ("__setitem__", "__setattr__") for c in an.callees(lt, n))]
    for n in indirect:
        ctx.ob("load.key-verbatim", lt, n.ast if n.ast is not None else n.stmt, False,
               "load_tree stores through Config.%s, which re-interprets the key (a '.' in a document key becomes a path): the tree "
               "written by to_tree is not what is read back" % [c.name for c in an.callees(lt, n) if c.name in ("__setitem__", "__setattr__")][0], node=n)
    if indirect and not sv_nodes:
        sv_nodes = []
    else:
        ctx.need(bool(sv_nodes) and bool(dec), "load_tree no longer decodes and stores: vanished anchor")
    Field = model.cls("Field")
    for svn in sv_nodes:
        # a call reached only for members that are not Fields (sub-configurations) has nothing to decode
        ftl = an.ft(lt)
        if any((not tr) and isinstance(t.ast, ast.Call) and isinstance(t.ast.func, ast.Name) and t.ast.func.id == "isinstance"
               and "Field" in (ftl.class_spec(t.ast.args[1], {}) or []) for t, tr in dominating_guards(an, lt, svn)):
            ctx.ob("load.decode-before-store", lt, svn.ast, True, "reached only for non-Field members (nothing to decode)", node=svn, nontrivial=False)
            continue
        bad = None
        for t in g.nodes:
            if t.kind == "test" and "Field" in (an.ft(lt).class_spec(t.ast.args[1], {}) or [] if isinstance(t.ast, ast.Call) and
                                               isinstance(t.ast.func, ast.Name) and t.ast.func.id == "isinstance" and len(t.ast.args) == 2 else []):
                for s, lbl in t.succ:
                    if lbl is True:
                        bad = bad or g.path(s, lambda n: n is svn, may_raise=lambda n: an.node_may_raise(lt, n),
                                            stop=lambda n: n in dec or n.kind == "for_iter")
        ctx.ob("load.decode-before-store", lt, svn.ast, bad is None,
               "Field values pass field.to_python before _set_value" if bad is None else
               "a Field value can reach _set_value undecoded: %s" % pth(bad), node=svn)
        for dn in dec:
            a = dn.ast.args
            okd = len(a) == 2 and isinstance(a[0], ast.Name) and _is_self(lt, a[0], dn) and any(
                k == "iter" and pl[1] == 1 for k, pl in value_sources(lt, a[1], dn))
            ctx.ob("load.decoder-args", lt, dn.ast, okd, "field.to_python(self, <value from the tree>)" if okd else
                   "the decoder is not called with (this configuration, the tree's value)", node=dn)
        # the decoded value is what is stored
        if len(svn.ast.args) >= 2:
            srcs = value_sources(lt, svn.ast.args[1], svn)
            okv = any(k == "expr" and isinstance(pl, ast.Call) and isinstance(pl.func, ast.Attribute) and pl.func.attr == "to_python" for k, pl in srcs)
            ctx.ob("load.stores-decoded", lt, svn.ast, okv, "the value handed to _set_value is the decoded one" if okv else
                   "to_python's result is not what is handed to _set_value", node=svn)

    dumps = model.method("Config", "dumps")
    g = an.cfg(dumps)
    fmt_nodes = [n for n in g.nodes if any(e[0] == "FORMAT" for e in calls.direct(dumps, n))]
    ctx.need(bool(fmt_nodes), "Config.dumps no longer calls the formatter: vanished anchor")
    for n in fmt_nodes:
        tree_arg = n.ast.args[1] if len(n.ast.args) >= 2 else None
        ok = False
        why = "the formatter is not handed the result of self.to_tree(...)"
        if tree_arg is not None:
            for kind, payload in value_sources(dumps, tree_arg, n):
                if kind == "expr" and isinstance(payload, ast.Call) and any(e[0] == "TO_TREE" for nn in g.nodes_for(payload) for e in calls.direct(dumps, nn)):
                    kws = {k.arg: k.value for k in payload.keywords}
                    fwd = all(isinstance(kws.get(p), ast.Name) and kws[p].id == p for p in ("virtual", "sensitive_mask"))
                    pos = len(payload.args) >= 2 and all(isinstance(a, ast.Name) for a in payload.args[:2])
                    ok = fwd or pos
                    why = "formatter.dumps receives self.to_tree(virtual=virtual, sensitive_mask=sensitive_mask)" if ok else \
                        "dumps does not forward virtual/sensitive_mask to to_tree"
        ctx.ob("glue.dumps", dumps, n.ast, ok, why, node=n)

    loads = model.method("Config", "loads")
    g = an.cfg(loads)
    ltn = [n for n in g.nodes if any(c.name == "load_tree" for c in an.callees(loads, n))]
    for n in ltn:
        ok, why = False, "load_tree is not fed by _process_includes(formatter.loads(...))"
        if n.ast.args:
            for kind, payload in value_sources(loads, n.ast.args[0], n):
                if kind == "expr" and isinstance(payload, ast.Call) and isinstance(payload.func, ast.Attribute) \
                        and payload.func.attr == "_process_includes" and len(payload.args) >= 2:
                    for k2, p2 in value_sources(loads, payload.args[1], g.nodes_for(payload)[0]):
                        if k2 == "expr" and isinstance(p2, ast.Call) and any(e[0] == "PARSE" for nn in g.nodes_for(p2) for e in calls.direct(loads, nn)):
                            ok, why = True, "load_tree(_process_includes(schema, formatter.loads(self, content), ...))"
        ctx.ob("glue.loads", loads, n.ast, ok, why, node=n)

    for name, mode_ch in (("save", "w"), ("load", "r")):
        f = model.method("Config", name)
        g = an.cfg(f)
        opens = [n for n in g.nodes if any(e[0] == "OPEN" for e in calls.direct(f, n))]
        ctx.need(bool(opens), "Config.%s no longer opens a file: vanished anchor" % name)
        for n in opens:
            mode = open_mode(n.ast)
            okm = "b" in mode and mode_ch in mode
            ctx.ob("glue.binary-%s" % name, f, n.ast, okm, "binary mode %r" % mode if okm else
                   "Config.%s opens the file with mode %r: bytes produced by the formatter are not written/read verbatim" % (name, mode), node=n)
            path_arg = open_path_expr(n.ast)
            exp = False
            if path_arg is not None:
                for kind, payload in value_sources(f, path_arg, n):
                    if kind == "expr" and isinstance(payload, ast.AST) and any(
                            isinstance(x, ast.Call) and ast.unparse(x.func).endswith("expanduser") for x in ast.walk(payload)):
                        exp = True
                    if kind == "expr" and isinstance(payload, ast.AST):
                        for nm in ast.walk(payload):
                            if isinstance(nm, ast.Name):
                                for k2, p2 in value_sources(f, nm, n):
                                    if k2 == "expr" and isinstance(p2, ast.Call) and ast.unparse(p2.func).endswith("expanduser"):
                                        exp = True
            ctx.ob("glue.expanduser-%s" % name, f, n.ast, exp, "path expanded with os.path.expanduser" if exp else
                   "Config.%s does not expand ~ while its counterpart does: a saved file is not found on load" % name, node=n)
