"""C01 -- every value a configuration holds satisfies its field's declared constraints."""
from __future__ import annotations

import ast

from engine.defuse import reaching_defs, value_sources
from engine.flow import (def_types, dominating_guards, guard_atoms, falls_through, must_pass, path_avoiding,
                         reachable_from_entry, returns_of, same_name_value)
from engine.model import AnalysisError
from engine.types import ANY, FnTypes
from .common import (CALLS, DICT_INSERTING, LIST_INSERTING, STATE, called_attr, container_mutations)

META = {
    "explanation": (
        "Routes into a configuration are syntactic objects, so they are enumerated exhaustively: every "
        "store/mutation of a Config._data mapping in the package must be a validated store (value = result "
        "of <field>.validate on the field whose own key indexes the store, followed through helper "
        "parameters to every call site), a default store (reachable only from __setdefault__ "
        "implementations; environment-derived values validated first) or a configuration store (value "
        "typed Config). The typed list/dict proxies must override every inserting method of their builtin "
        "base (table checked against dir() of the running interpreter) and hand only self._validate(...) "
        "results, element-wise, to the builtin; validators must return a value on every path and chain to "
        "their validating parent."),
    "decided": [
        "C01.1 single validated gateway into Config._data (FLOW over all _data stores, lifted through parameters to all call sites)",
        "C01.2 each store is indexed by the validating field's own key",
        "C01.3 load_tree hands every key to _set_value (only exit: the environment-skip guard)",
        "C01.4 ListProxy/DictProxy override every inserting builtin method (OVERRIDE)",
        "C01.5 only validated elements reach the builtin container (TAINT at every delegation site)",
        "C01.6 _validate implementations return on every path and chain to a validating parent",
        "C01.7 Field.validate: required -> _validate -> custom validator; typed-container validators return a proxy built for (cfg, self); proxy owner never re-bound",
        "C01.8 declared bounds/lengths enforced with None-safe, inclusive guards; normalise-then-check (shared with C05.1-3)",
    ],
    "not_decided": ["that each validator's predicate is exactly the declared constraint for every value (structural part: C05)"],
}

# classification of the builtin containers' methods (appendix B); checked for completeness against
# dir() of the running interpreter -- an unknown name is an analysis error, not a pass
LIST_TABLE = {
    "inserting": {"__init__", "append", "extend", "insert", "__setitem__", "__iadd__"},
    "safe": {"pop", "remove", "__delitem__", "clear", "sort", "reverse", "__imul__"},
    "new_object": {"__add__", "__mul__", "__rmul__", "copy"},
}
DICT_TABLE = {
    "inserting": {"__init__", "__setitem__", "update", "setdefault", "__ior__"},
    "safe": {"pop", "popitem", "__delitem__", "clear"},
    "new_object": {"__or__", "__ror__", "fromkeys", "copy"},
}
QUERIES = {
    "__class__", "__class_getitem__", "__contains__", "__delattr__", "__dir__", "__doc__", "__eq__",
    "__format__", "__ge__", "__getattribute__", "__getitem__", "__getstate__", "__gt__", "__hash__",
    "__init_subclass__", "__iter__", "__le__", "__len__", "__lt__", "__ne__", "__new__", "__reduce__",
    "__reduce_ex__", "__repr__", "__reversed__", "__setattr__", "__sizeof__", "__str__",
    "__subclasshook__", "count", "index", "get", "items", "keys", "values",
}


def is_field_validate(an, t) -> bool:
    return (t.kind == "fn" and t.fn is not None and t.fn.name == "validate" and t.fn.cls is not None
            and t.fn.cls.is_subclass_of(an.model.cls("Field")))


def validated_by(an, fn, value_expr, node, field_expr, depth=0):
    """(ok, why): does value_expr at node hold only results of <field_expr>.validate(...)?"""
    if depth > 4:
        return False, "call chain too deep to follow"
    g = an.cfg(fn)
    for kind, payload in value_sources(fn, value_expr, node):
        if kind == "expr" and isinstance(payload, ast.Call):
            nodes = g.nodes_for(payload)
            tg = an.targets(fn, nodes[0]) if nodes else []
            if tg and all(is_field_validate(an, t) for t in tg) and isinstance(payload.func, ast.Attribute):
                if same_name_value(fn, payload.func.value, nodes[0], field_expr, node):
                    continue
                return False, "value validated by %s, stored for %s" % (
                    ast.unparse(payload.func.value), ast.unparse(field_expr))
            return False, "value comes from %s, not from the field's validate()" % ast.unparse(payload)[:60]
        if kind == "param":
            fparam = None
            if isinstance(field_expr, ast.Name):
                fparam = field_expr.id
            if fparam is None or fparam not in [a.arg for a in fn.params]:
                return False, "stored value is parameter %r but the field is not a parameter" % payload
            callers = an.callers(fn)
            if not callers:
                return False, "%s is an entry point: parameter %r arrives unvalidated" % (fn.qualname, payload)
            for cf, cn in callers:
                for t in an.targets(cf, cn):
                    if t.fn is not fn:
                        continue
                    b = an.bind_args(t, cf, cn)
                    v, f = b.get(payload), b.get(fparam)
                    if v is None or f is None:
                        return False, "cannot bind arguments at %s" % cf.site(cn.ast)
                    ok, why = validated_by(an, cf, v, cn, f, depth + 1)
                    if not ok:
                        return False, "via %s: %s" % (cf.site(cn.ast), why)
            continue
        return False, "value source %s %s is not a validate() result" % (
            kind, ast.unparse(payload)[:50] if isinstance(payload, ast.AST) else payload)
    return True, "every reaching definition is <field>.validate(...) of the same field"


def is_setdefault_impl(an, f) -> bool:
    return f.name == "__setdefault__" and f.cls is not None and f.cls.is_subclass_of(an.model.cls("BaseField"))


def only_default_route(an, fn, depth=0, seen=None):
    """Is fn reachable only from __setdefault__ implementations (through private helpers)?"""
    seen = seen or set()
    if id(fn) in seen:
        return True, ""
    seen = seen | {id(fn)}
    if is_setdefault_impl(an, fn):
        return True, ""
    callers = an.callers(fn)
    if not callers:
        return False, "%s has no caller and is not a __setdefault__ implementation" % fn.qualname
    if depth > 4:
        return False, "call chain too deep"
    for cf, cn in callers:
        ok, why = only_default_route(an, cf, depth + 1, seen)
        if not ok:
            return False, "called from %s (%s)" % (cf.qualname, why or "not on the default route")
    return True, ""


def env_sources_validated(an, fn, value_expr, node):
    """No raw environment value flows into value_expr."""
    g = an.cfg(fn)
    calls = an.summary(CALLS)
    for kind, payload in value_sources(fn, value_expr, node):
        if kind == "expr" and isinstance(payload, ast.AST):
            for sub in ast.walk(payload):
                if isinstance(sub, ast.Call):
                    for n in g.nodes_for(sub):
                        if any(e[0] == "ENV_READ" for e in calls.direct(fn, n)):
                            return False, "raw environment value %s stored as default" % ast.unparse(sub)
                if isinstance(sub, ast.Subscript):
                    for n in g.nodes_for(sub):
                        if any(e[0] == "ENV_READ" for e in calls.direct(fn, n)):
                            return False, "raw environment value %s stored as default" % ast.unparse(sub)
    return True, ""


def check_gateway(ctx):
    an, model = ctx.an, ctx.model
    Config = model.cls("Config")
    sites = 0
    for fn in an.fns():
        ft = an.ft(fn)
        for node in an.cfg(fn).nodes:
            for owner, op, key, val in container_mutations(an, fn, node, "_data"):
                env = ft.env_in.get(node) or {}
                ot = ft.type_of(owner, env)
                # only mappings owned by a Config (ANY: assume yes -- conservative)
                if ot != ANY and not any(isinstance(a, str) and a in model.classes
                                         and model.classes[a].is_subclass_of(Config) for a in ot):
                    continue
                sites += 1
                construct = node.ast
                if op == "rebind":
                    ok = fn.name == "__init__" and fn.cls is not None and fn.cls.is_subclass_of(Config) and \
                        isinstance(val, (ast.Call, ast.Dict)) and not getattr(val, "args", None) and not getattr(val, "keys", None)
                    ctx.ob("gateway.init", fn, construct, ok,
                           "fresh empty mapping in the constructor" if ok else
                           "Config._data is re-bound outside the constructor or to a non-empty value", node=node)
                    continue
                if op != "setitem" or val is None:
                    removing = op in ("pop", "popitem", "clear", "delitem", "__delitem__")
                    ctx.ob("gateway.mutation", fn, construct, removing,
                           "removes entries only" if removing else
                           "mutation %s of Config._data bypasses the validated gateway" % op, node=node)
                    continue
                # (iii) configuration store
                vt = ft.type_of(val, env)
                if (vt == ANY or not vt or not all(isinstance(a, str) and a in model.classes and model.classes[a].is_subclass_of(Config) for a in vt)) \
                        and isinstance(val, ast.Name):
                    vt2 = def_types(an, fn, val, node)       # the live definitions only (flag-selected stores)
                    if vt2 != ANY:
                        vt = vt2
                if vt != ANY and vt and all(isinstance(a, str) and a in model.classes
                                            and model.classes[a].is_subclass_of(Config) for a in vt):
                    ctx.ob("gateway.config-store", fn, construct, True,
                           "stored value is typed %s on every path (isinstance-narrowed parameter or freshly "
                           "loaded sub-configuration)" % sorted(vt), node=node)
                    own_key_config_store(ctx, fn, node, owner, key)
                    continue
                # (ii) default store
                okd, whyd = only_default_route(an, fn)
                if okd:
                    oke, whye = env_sources_validated(an, fn, val, node)
                    ctx.ob("gateway.default-store", fn, construct, oke,
                           "reachable only from __setdefault__ implementations" if oke else whye, node=node)
                    # lift the env check to the callers that supply the value
                    for cf, cn in an.callers(fn):
                        for t in an.targets(cf, cn):
                            if t.fn is fn:
                                b = an.bind_args(t, cf, cn)
                                for p, a in b.items():
                                    if a is None or p == fn.self_name:
                                        continue
                                    oke, whye = env_sources_validated(an, cf, a, cn)
                                    if not oke:
                                        ctx.ob("gateway.default-store.env", cf, cn.ast, False, whye, node=cn)
                    continue
                # (i) validated store: key must be <F>._key, value validated by F
                field_expr = None
                if isinstance(key, ast.Attribute) and key.attr == "_key":
                    field_expr = key.value
                if field_expr is None:
                    ctx.ob("gateway.validated-store", fn, construct, False,
                           "store into Config._data is neither a default store (%s), nor a configuration "
                           "store (value typed %s), nor indexed by a field's own key" % (whyd, vt), node=node)
                    continue
                ok, why = validated_by(an, fn, val, node, field_expr)
                ctx.ob("gateway.validated-store", fn, construct, ok, why, node=node)
                ctx.ob("own-key", fn, construct, True, "indexed by %s, the validating field's own key (L1)"
                       % ast.unparse(key), node=node)
    ctx.need(sites >= 2, "fewer than 2 stores into Config._data found: vanished anchors")
    ctx.count("data_store_sites", sites)


def own_key_config_store(ctx, fn, node, owner, key):
    """The sub-configuration store is indexed by the key the field was looked up with."""
    an = ctx.an
    ok = False
    why = "subscript %s is not the key the field was looked up with" % ast.unparse(key)
    if isinstance(key, ast.Name):
        srcs = value_sources(fn, key, node)
        if all(k == "param" for k, _ in srcs):
            # the same parameter must feed the _get_field lookup
            for n in an.cfg(fn).nodes:
                if n.kind == "call" and isinstance(n.ast.func, ast.Attribute) and n.ast.func.attr == "_get_field" \
                        and n.ast.args and same_name_value(fn, n.ast.args[0], n, key, node):
                    ok = True
                    why = "indexed by parameter %r, the key passed to _get_field() (L1)" % key.id
    ctx.ob("own-key", fn, node.ast, ok, why, node=node)


def check_load_tree(ctx):
    an, model = ctx.an, ctx.model
    fn = model.method("Config", "load_tree")
    g = an.cfg(fn)
    calls = an.summary(CALLS)
    set_value = model.method("Config", "_set_value")
    loops = [n for n in g.nodes if n.kind == "for_iter" and isinstance(n.ast, ast.For)]
    ctx.need(bool(loops), "Config.load_tree has no loop over the tree: vanished anchor")
    found = False
    for head in loops:
        binds = [s for s, lbl in head.succ if lbl is True]
        if not binds:
            continue
        it = head.ast.iter
        # the loop over the tree parameter
        if not any(isinstance(x, ast.Name) and x.id in [a.arg for a in fn.params] for x in ast.walk(it)):
            continue
        found = True

        def is_gateway(n):
            return any(c is set_value for c in an.callees(fn, n))

        def env_guard_edge(a, b, lbl):
            if a.kind == "test" and lbl is True:
                exprs = [a.ast]
                # a local flag computed from the variable (`env_locked = bool(... and os.environ.get(name))`)
                for x in ast.walk(a.ast):
                    if isinstance(x, ast.Name):
                        exprs += [pl for k, pl in value_sources(fn, x, a) if k == "expr" and isinstance(pl, ast.AST)]
                for e_ in exprs:
                    for sub in ast.walk(e_):
                        for nn in g.nodes_for(sub):
                            if any(ev[0] == "ENV_READ" for ev in calls.direct(fn, nn)):
                                return False
            return True

        def unknown_key_edge(a, b, lbl):
            """the outcome that says "the schema has no field for this key": nothing of the document's that belongs to a field
            is dropped on that edge (the key is not stored either: every store goes through the gateway)"""
            if a.kind != "test" or a.ast is None:
                return False
            e = a.ast
            tgt = None
            if isinstance(e, ast.Compare) and len(e.ops) == 1 and isinstance(e.comparators[0], ast.Constant) and e.comparators[0].value is None:
                if (isinstance(e.ops[0], ast.Is) and lbl is True) or (isinstance(e.ops[0], ast.IsNot) and lbl is False):
                    tgt = e.left
            elif isinstance(e, ast.UnaryOp) and isinstance(e.op, ast.Not) and lbl is True:
                tgt = e.operand
            elif isinstance(e, ast.Name) and lbl is False:
                tgt = e
            if isinstance(tgt, ast.Name):
                srcs = value_sources(fn, tgt, a)
                return bool(srcs) and all(k == "expr" and isinstance(pl, ast.Call) and isinstance(pl.func, ast.Attribute)
                                          and pl.func.attr in ("_get_field", "get") for k, pl in srcs)
            return False

        p = path_avoiding(an, fn, binds[0], lambda n: n is head, is_gateway,
                          edge_filter=lambda a, b, lbl: env_guard_edge(a, b, lbl) and not unknown_key_edge(a, b, lbl), exceptions=False)
        for n in g.nodes:
            if is_gateway(n) and n.kind == "call" and len(n.ast.args) >= 2:
                k_ok = any(k == "iter" and pl[1] == 0 for k, pl in value_sources(fn, n.ast.args[0], n))
                v_ok = not any(k == "iter" and pl[1] == 0 for k, pl in value_sources(fn, n.ast.args[1], n))
                ctx.ob("load.key-value-order", fn, n.ast, k_ok and v_ok, "_set_value(key, value) receives the tree's key and its value" if k_ok and v_ok else
                       "_set_value is not handed (key, value) of the tree entry in that order", node=n)
        ctx.ob("load.every-key", fn, head.ast.iter, p is None,
               "every iteration reaches _set_value(key, ...) unless it leaves through the environment-skip guard"
               if p is None else "an iteration can finish without _set_value: %s" %
               " -> ".join("%s@%s" % (x.kind, x.lineno) for x in p), node=head)
    ctx.need(found, "Config.load_tree does not iterate over its tree parameter: vanished anchor")


def check_override(ctx):
    an, model = ctx.an, ctx.model
    import builtins
    n = 0
    for c in model.classes.values():
        if c.node is None:
            continue
        for base, table in (("list", LIST_TABLE), ("dict", DICT_TABLE)):
            if not c.is_subclass_of(base):
                continue
            known = set().union(*table.values()) | QUERIES
            unknown = sorted(set(dir(getattr(builtins, base))) - known)
            if unknown:
                raise AnalysisError("builtin %s has methods not classified in the OVERRIDE table: %s" % (base, unknown))
            for m in sorted(table["inserting"]):
                f = c.lookup(m)
                n += 1
                ctx.ob("override", c, "%s.%s" % (c.name, m), f is not None,
                       "overridden at %s" % f.site() if f is not None else
                       "%s inherits %s.%s: elements inserted through it are never validated" % (c.name, base, m))
    ctx.need(n >= 11, "proxy classes not found: vanished anchors")


def _proxy_validate_call(an, fn, expr, node_hint=None):
    """Is expr a call of the enclosing proxy class's own _validate?"""
    if not isinstance(expr, ast.Call):
        return False
    nodes = an.cfg(fn).nodes_for(expr)
    if not nodes:
        return False
    tg = an.targets(fn, nodes[0])
    return bool(tg) and all(t.kind == "fn" and t.fn.name == "_validate" and t.fn.cls is not None
                            and fn.cls is not None and fn.cls.is_subclass_of(t.fn.cls) for t in tg) \
        and isinstance(expr.func, ast.Attribute) and isinstance(expr.func.value, ast.Name) \
        and expr.func.value.id == fn.self_name


def element_validated(an, fn, expr, node, index=None):
    """expr evaluates to (component *index* of) a self._validate(...) result."""
    for kind, payload in value_sources(fn, expr, node):
        if kind == "expr":
            if index is None and _proxy_validate_call(an, fn, payload):
                continue
            if (index is not None and isinstance(payload, ast.Subscript) and isinstance(payload.slice, ast.Constant)
                    and payload.slice.value == index and _proxy_validate_call(an, fn, payload.value)):
                continue
            return False
        if kind == "unpack":
            val, idx, _ = payload
            if index is not None and idx == index and _proxy_validate_call(an, fn, val):
                continue
            return False
        return False
    return True


def iterable_validated(an, fn, expr, node):
    """expr is a comprehension / generator whose element is self._validate(...) (or a name bound
    to one)."""
    for kind, payload in value_sources(fn, expr, node):
        if kind != "expr":
            return False
        if isinstance(payload, (ast.ListComp, ast.GeneratorExp, ast.SetComp)):
            if not _proxy_validate_call(an, fn, payload.elt):
                return False
        elif isinstance(payload, (ast.List, ast.Tuple)):
            if not all(_proxy_validate_call(an, fn, e) for e in payload.elts):
                return False
        else:
            return False
    return True


def _split_atoms(e, truth, node, out):
    if isinstance(e, ast.UnaryOp) and isinstance(e.op, ast.Not):
        return _split_atoms(e.operand, not truth, node, out)
    if isinstance(e, ast.BoolOp) and ((isinstance(e.op, ast.And) and truth) or (isinstance(e.op, ast.Or) and not truth)):
        for v in e.values:
            _split_atoms(v, truth, node, out)
        return out
    out.append((e, truth, node))
    return out


def fast_path_guard(an, fn, node, data_expr, avoid=None, assume=()):
    """Is node dominated by `isinstance(X, <same proxy class>)` and an identity test between X's
    field and the receiver's, where the data handed on is X (or comes from iterating X)?  With *avoid* (the nodes that
    re-define the data variable) only the paths on which the original value is still live are considered."""
    cls = fn.cls
    if isinstance(data_expr, ast.Name):
        # the outcomes that say "the data is empty" carry nothing into the container: the guard has to hold on the other paths
        from engine.defuse import reaching_defs as _rdefs
        rd0 = _rdefs(fn)
        here0 = {id(d) for d in rd0.reaching(node, data_expr.id)}
        empties = set()
        for t in an.cfg(fn).nodes:
            if t.kind != "test" or t.ast is None:
                continue
            e0, lbl0 = t.ast, False
            if isinstance(e0, ast.UnaryOp) and isinstance(e0.op, ast.Not):
                e0, lbl0 = e0.operand, True
            if isinstance(e0, ast.Name) and e0.id == data_expr.id and {id(d) for d in rd0.reaching(t, e0.id)} <= here0 | ({id(d) for d in rd0.reaching(t, e0.id)} if avoid else set()):
                empties.add((t, lbl0))
        if empties:
            avoid = set(avoid or ()) | empties
    atoms = guard_atoms(an, fn, node, avoid, extra=assume)      # dominating outcomes (and the tests of enclosing conditional expressions), local flags written out
    xs = set()
    for e, truth, t in atoms:
        if truth and isinstance(e, ast.Call) and isinstance(e.func, ast.Name) and e.func.id == "isinstance" \
                and len(e.args) == 2 and isinstance(e.args[0], ast.Name):
            spec = an.ft(fn).class_spec(e.args[1], {})
            if spec and all(s in an.model.classes and an.model.classes[s].is_subclass_of(cls) for s in spec):
                xs.add(e.args[0].id)
    if not xs:
        return False, "no dominating isinstance(x, %s) guard" % cls.name
    ident = set()
    for e, truth, t in atoms:
        if not truth:
            continue
        if isinstance(e, ast.Compare) and len(e.ops) == 1 and isinstance(e.ops[0], ast.Is):
            names = {n.id for n in ast.walk(e) if isinstance(n, ast.Name)}
            for x in xs & names:
                if _identity_of_fields(an, fn, e, x):
                    ident.add(x)
        if isinstance(e, ast.Call) and isinstance(e.func, ast.Attribute) and isinstance(e.func.value, ast.Name) \
                and e.func.value.id == fn.self_name and e.args and isinstance(e.args[0], ast.Name):
            cn = an.cfg(fn).nodes_for(e)
            for tg in (an.callees(fn, cn[0]) if cn else []):
                if _is_identity_conjunction(an, tg):
                    ident.add(e.args[0].id)
    good = xs & ident
    if not good:
        return False, "isinstance guard present but no identity test of the item/dict field"
    # the data must be x itself or elements obtained by iterating x
    if isinstance(data_expr, ast.Name) and data_expr.id in good:
        # the guarded local itself (`source = iterable or []` ... guard on source ... list.__init__(self, source)): the same
        # definitions reach the guard and the use -- or, with *avoid*, the one definition the guard saw is among those that reach
        # the use and the others are the avoided re-definitions
        from engine.defuse import reaching_defs
        rd_ = reaching_defs(fn)
        tests_ = [t for e, truth, t in atoms if truth and isinstance(e, ast.Call) and isinstance(e.func, ast.Name) and e.func.id == "isinstance"
                  and isinstance(e.args[0], ast.Name) and e.args[0].id == data_expr.id]
        here = {id(d): d for d in rd_.reaching(node, data_expr.id)}
        if tests_ and not avoid and all({id(d) for d in rd_.reaching(t, data_expr.id)} == set(here) for t in tests_):
            return True, "same-field proxy fast path: elements were validated by the same field when they entered %s" % sorted(good)
        if tests_ and avoid:
            seen_ = [{id(d) for d in rd_.reaching(t, data_expr.id)} for t in tests_]
            if all(len(x_) == 1 and x_ <= set(here) for x_ in seen_) and len({next(iter(x_)) for x_ in seen_}) == 1:
                others = [d for i_, d in here.items() if i_ not in seen_[0]]
                if all(d.node in avoid for d in others):
                    return True, "same-field proxy fast path: elements were validated by the same field when they entered %s" % sorted(good)
    # the guard was asked of a local copy of the data (`trusted = self._holds_validated(iterable)` expanded where it is called
    # tests its own parameter): same value when both names resolve to the same leaves
    if isinstance(data_expr, ast.Name) and data_expr.id not in good:
        def leaves(name_id, at):
            return {(k_, id(p_) if isinstance(p_, ast.AST) else p_) for k_, p_ in value_sources(fn, ast.Name(id=name_id, ctx=ast.Load()), at)}
        want = leaves(data_expr.id, node)
        for e, truth, t in atoms:
            if truth and isinstance(e, ast.Call) and isinstance(e.func, ast.Name) and e.func.id == "isinstance" and isinstance(e.args[0], ast.Name) \
                    and e.args[0].id in good and want and leaves(e.args[0].id, t) == want and not avoid:
                return True, "same-field proxy fast path: elements were validated by the same field when they entered %s" % sorted(good)
    for kind, payload in value_sources(fn, data_expr, node):
        if kind == "param" and payload in good:
            continue
        if avoid and kind != "param":
            continue        # the re-definitions are judged on their own; here only the parameter's own arrival counts
        if kind == "expr" and isinstance(payload, ast.Name) and payload.id in good:
            continue
        if kind == "expr" and isinstance(payload, ast.Call) and isinstance(payload.func, ast.Attribute) and payload.func.attr in ("items", "values", "keys", "copy") \
                and isinstance(payload.func.value, ast.Name) and payload.func.value.id in good and not payload.args:
            continue        # a view / copy of the guarded proxy
        if kind == "expr" and isinstance(payload, ast.Call) and isinstance(payload.func, ast.Name) and payload.func.id in ("list", "tuple", "iter") \
                and len(payload.args) == 1 and isinstance(payload.args[0], ast.Name) and payload.args[0].id in good:
            continue
        if kind == "expr" and isinstance(payload, (ast.List, ast.Tuple, ast.Dict)) and not getattr(payload, "elts", None) \
                and not getattr(payload, "keys", None):
            continue    # empty literal alternative of `x or []`: carries no data
        if kind in ("iter",):
            it = payload[0]
            base = it.func.value if isinstance(it, ast.Call) and isinstance(it.func, ast.Attribute) else it
            if isinstance(base, ast.Name) and base.id in good:
                continue
            if isinstance(base, ast.Name):
                # a local copy of the guarded proxy (the parameter of a helper expanded under the guard)
                bs = value_sources(fn, base, None)
                if bs and all((k_ == "param" and p_ in good) or (k_ == "expr" and isinstance(p_, ast.Name) and p_.id in good) for k_, p_ in bs):
                    continue
        return False, "guarded, but the data handed to the builtin is not the guarded proxy"
    return True, "same-field proxy fast path: elements were validated by the same field when they entered %s" % sorted(good)


def _identity_of_fields(an, fn, cmp: ast.Compare, x: str) -> bool:
    """`x.<f> is <self side>` where both sides denote the item/dict field."""
    left, right = cmp.left, cmp.comparators[0]
    def rooted(e, name):
        while isinstance(e, ast.Attribute):
            e = e.value
        return isinstance(e, ast.Name) and e.id == name
    params = {a.arg for a in fn.params}
    if rooted(left, x) and isinstance(left, ast.Attribute):
        other = right
    elif rooted(right, x) and isinstance(right, ast.Attribute):
        other = left
    else:
        return False
    # the other side is rooted at self or at a constructor parameter that becomes the proxy's field
    while isinstance(other, ast.Attribute):
        other = other.value
    return isinstance(other, ast.Name) and (other.id == fn.self_name or other.id in params) and other.id != x


def _is_identity_conjunction(an, f) -> bool:
    rets = [n for n in ast.walk(f.node) if isinstance(n, ast.Return)]
    if len(rets) != 1 or rets[0].value is None:
        return False
    v = rets[0].value
    parts = v.values if isinstance(v, ast.BoolOp) and isinstance(v.op, ast.And) else [v]
    ok_field = False
    def root(e):
        while isinstance(e, ast.Attribute):
            e = e.value
        return e.id if isinstance(e, ast.Name) else None
    others = [a.arg for a in f.params if a.arg != f.self_name]
    for p in parts:
        if not (isinstance(p, ast.Compare) and len(p.ops) == 1 and isinstance(p.ops[0], ast.Is)):
            return False
        txt = ast.unparse(p)
        if "_field" in txt or "field" in txt:
            # the field of *this* proxy against the field of *the other one*: `self.f is self.f` compares nothing
            ra, rb = root(p.left), root(p.comparators[0])
            if {ra, rb} == {f.self_name, others[0] if others else None} and ra != rb:
                ok_field = True
            else:
                return False
    return ok_field


def arg_validated(an, fn, expr, node, form, depth=0, use_node=None, assume=()):
    """(ok, why): does *expr*, evaluated at *node*, carry only data that went through self._validate (in the shape
    *form* asks for), or data of a proxy of the same field (fast path)?  Followed through local definitions; every
    reaching definition must qualify on its own."""
    from engine.defuse import reaching_defs
    if depth > 6:
        return False, "definition chain too long"
    use_node = use_node or node

    def guarded(e):
        # the same-field fast path may be established where the value is used or where it was copied
        ok, why = fast_path_guard(an, fn, use_node, e, assume=assume)
        if not ok and node is not use_node:
            ok2, why2 = fast_path_guard(an, fn, node, e, assume=assume)
            if ok2:
                return ok2, why2
        return ok, why
    want_elem = form in ("elem", "elem-or-iter", "key", "value")
    want_iter = form in ("iter", "elem-or-iter", "pairs")
    index = 0 if form == "key" else (1 if form == "value" else None)
    if isinstance(expr, ast.IfExp):
        a, wa = arg_validated(an, fn, expr.body, node, form, depth + 1, use_node, tuple(assume) + ((expr.test, True),))
        b, wb = arg_validated(an, fn, expr.orelse, node, form, depth + 1, use_node, tuple(assume) + ((expr.test, False),))
        return a and b, wa if not a else wb
    if want_elem and index is None and _proxy_validate_call(an, fn, expr):
        return True, "self._validate(...)"
    if want_elem and index is not None and isinstance(expr, ast.Subscript) and isinstance(expr.slice, ast.Constant) \
            and expr.slice.value == index and _proxy_validate_call(an, fn, expr.value):
        return True, "component %d of self._validate(...)" % index
    if want_iter and isinstance(expr, (ast.ListComp, ast.GeneratorExp, ast.SetComp)) and _proxy_validate_call(an, fn, expr.elt):
        return True, "every element is self._validate(...)"
    if want_iter and isinstance(expr, (ast.List, ast.Tuple)) and all(_proxy_validate_call(an, fn, e) for e in expr.elts):
        return True, "literal of validated elements" if expr.elts else "empty literal"
    if isinstance(expr, ast.Name):
        rd = reaching_defs(fn)
        defs = rd.reaching(node, expr.id)
        if not defs:
            return False, "%s has no local definition" % expr.id
        if not all(d.kind == "param" for d in defs):
            # the local itself may be what the fast-path guard was established on (`source = iterable or []`; guard on source),
            # where it is used or where it is copied on
            for at_ in ([use_node] if node is use_node else [node, use_node]):
                ok0, why0 = fast_path_guard(an, fn, at_, expr, assume=assume)
                if ok0:
                    return ok0, why0
        whys = []
        for d in defs:
            if d.kind == "assign" and d.value is not None:
                ok, why = arg_validated(an, fn, d.value, d.node, form, depth + 1, use_node)
                if not ok and len(defs) > 1:
                    # `if not fast: x = validated(x)` ... use(x) where x is a local: this definition arrives only along the fast path
                    others_ = {dd.node for dd in defs if dd is not d and dd.node is not None}
                    ok2, why2 = fast_path_guard(an, fn, use_node, expr, avoid=others_, assume=assume)
                    if ok2:
                        ok, why = ok2, why2
            elif d.kind == "unpack" and index is not None and d.index == index and _proxy_validate_call(an, fn, d.value):
                ok, why = True, "component %d of self._validate(...)" % index
            elif d.kind == "for" and isinstance(d.value, ast.Name) and d.node is not None:
                # the loop runs over a local that was bound earlier (`pairs = other.items()` on the fast path, a list of
                # validated pairs otherwise): every definition of that local has to qualify where it is made
                ok, why = True, ""
                it_defs = rd.reaching(d.node, d.value.id)
                if not it_defs:
                    ok, why = False, "%s has no local definition" % d.value.id
                for itd in it_defs:
                    if itd.kind == "assign" and itd.value is not None:
                        v_ = itd.value
                        if isinstance(v_, (ast.ListComp, ast.GeneratorExp)) and _proxy_validate_call(an, fn, v_.elt):
                            o2, w2 = True, "pairs produced by self._validate(...)"
                        elif isinstance(v_, (ast.List, ast.Tuple)) and not v_.elts:
                            o2, w2 = True, "empty literal"
                        else:
                            o2, w2 = fast_path_guard(an, fn, itd.node, v_)
                    elif itd.kind == "param":
                        o2, w2 = fast_path_guard(an, fn, use_node, d.value)
                    else:
                        o2, w2 = False, "%s comes from %s" % (d.value.id, itd.kind)
                    if not o2:
                        ok, why = False, w2
                        break
                    why = w2
            elif d.kind in ("param", "for", "with"):
                ok, why = guarded(expr)
                if not ok and d.kind == "param":
                    # `if not fast: x = validated(x)` ... use(x): the parameter itself arrives only along the fast path
                    redefs = {m for m in an.cfg(fn).nodes if any(dd.name == expr.id for dd in rd.defs_at.get(m, []))}
                    if redefs:
                        ok, why = fast_path_guard(an, fn, use_node, expr, avoid=redefs)
            else:
                ok, why = False, "%s comes from %s" % (expr.id, d.kind)
            if not ok:
                return False, why
            whys.append(why)
        return True, "; ".join(sorted(set(whys)))
    if want_iter and isinstance(expr, ast.Call) and isinstance(expr.func, ast.Name) and expr.func.id in ("list", "tuple", "iter") \
            and len(expr.args) == 1 and not expr.keywords:
        return arg_validated(an, fn, expr.args[0], node, "iter", depth + 1, use_node)
    if isinstance(expr, ast.BoolOp) and isinstance(expr.op, ast.Or):
        for v in expr.values:
            ok, why = arg_validated(an, fn, v, node, form, depth + 1, use_node)
            if not ok:
                return False, why
        return True, "all alternatives validated"
    ok, why = guarded(expr)
    return ok, (why if ok else "%s does not derive from self._validate(...) and %s" % (ast.unparse(expr)[:40], why))


DATA_ARGS = {
    # method -> list of (arg index, form)   form: 'elem' | 'iter' | 'elem-or-iter' | 'key' | 'value' | 'pairs'
    ("list", "__init__"): [(0, "iter")], ("list", "append"): [(0, "elem")], ("list", "extend"): [(0, "iter")],
    ("list", "insert"): [(1, "elem")], ("list", "__setitem__"): [(1, "elem-or-iter")],
    ("list", "__iadd__"): [(0, "iter")],
    ("dict", "__init__"): [(0, "pairs")], ("dict", "__setitem__"): [(0, "key"), (1, "value")],
    ("dict", "update"): [(0, "pairs")], ("dict", "setdefault"): [(0, "key"), (1, "value")],
    ("dict", "__ior__"): [(0, "pairs")],
}


def check_taint(ctx):
    an, model = ctx.an, ctx.model
    state = an.summary(STATE)
    nsites = 0
    for c in model.classes.values():
        if c.node is None:
            continue
        base = "list" if c.is_subclass_of("list") else ("dict" if c.is_subclass_of("dict") else None)
        if base is None:
            continue
        inserting = LIST_INSERTING if base == "list" else DICT_INSERTING
        for fn in list(c.methods.values()):
            g = an.cfg(fn)
            reach = reachable_from_entry(an, fn)
            for node in g.nodes:
                if node not in reach or node.kind != "call":
                    continue
                evs = [e for e in state.direct(fn, node) if e[0] == "W_BUILTIN" and e[2] in inserting
                       and e[1] == ("self", ())]
                if not evs:
                    continue
                meth = evs[0][2]
                call = node.ast
                args = list(call.args)
                if not FnTypes.is_super_call(call.func):
                    args = args[1:]     # list.append(self, x)
                nsites += 1
                if call.keywords and base == "dict" and meth in ("__init__", "update"):
                    ctx.ob("taint", fn, call, False,
                           "keyword entries are handed to dict.%s without validation" % meth, node=node)
                    continue
                spec = DATA_ARGS[(base, meth)]
                if not args and meth == "__init__":
                    ctx.ob("taint", fn, call, True, "empty initialisation carries no data", node=node,
                           nontrivial=False)
                    continue
                ok_all, whys = True, []
                # super().__setitem__(*self._validate(key, value)): the validated pair, in order
                def starred_pair(e):
                    if _proxy_validate_call(an, fn, e):
                        return True
                    if isinstance(e, ast.Name):
                        srcs = value_sources(fn, e, node)
                        return bool(srcs) and all(k == "expr" and _proxy_validate_call(an, fn, pl) for k, pl in srcs)
                    return False
                if len(args) == 1 and isinstance(args[0], ast.Starred) and starred_pair(args[0].value) and \
                        [f for _, f in spec] == ["key", "value"]:
                    ctx.ob("taint", fn, call, True, "the validated (key, value) pair is unpacked straight into the builtin", node=node)
                    continue
                if any(isinstance(a, ast.Starred) for a in args):
                    ctx.ob("taint", fn, call, False, "starred arguments cannot be followed", node=node)
                    continue
                for idx, form in spec:
                    if idx >= len(args):
                        continue
                    a = args[idx]
                    ok, why = arg_validated(an, fn, a, node, form)
                    ok_all = ok_all and ok
                    whys.append("argument %d (%s): %s" % (idx, form, why))
                ctx.ob("taint", fn, call, ok_all, "; ".join(whys), node=node)
    ctx.need(nsites >= 4, "fewer than 4 delegation sites to the builtin containers found (%d)" % nsites)
    ctx.count("delegation_sites", nsites)


def check_validators(ctx):
    an, model = ctx.an, ctx.model
    Field = model.cls("Field")
    base_validate = Field.methods.get("_validate")
    ctx.need(base_validate is not None, "Field._validate vanished")
    impls = []
    for c in Field.subclasses(strict=True):
        f = c.methods.get("_validate")
        if f is not None:
            impls.append((c, f))
    ctx.need(len(impls) >= 10, "fewer than 10 _validate implementations found")
    for c, f in impls:
        ft = falls_through(an, f)
        rets = returns_of(an, f)
        bad = [r for r in rets if r.ast.value is None or (isinstance(r.ast.value, ast.Constant) and r.ast.value.value is None)]
        ok = not ft and not bad and bool(rets)
        ctx.ob("validator.returns", f, "%s._validate returns a value on every path" % c.name, ok,
               "%d return sites, all carry a value; no fall-through" % len(rets) if ok else
               ("control can fall off the end (implicit None replaces the value)" if ft else
                "a return without a value replaces the validated value by None"))
        # chain to the validating parent
        parent = None
        for k in c.package_mro()[1:]:
            if "_validate" in k.methods:
                parent = k.methods["_validate"]
                break
        if parent is None or parent is base_validate:
            continue
        g = an.cfg(f)
        supers = [n for n in g.nodes if n.kind == "call" and FnTypes.is_super_call(n.ast.func)
                  and n.ast.func.attr == "_validate"]
        okc = bool(supers)
        why = "every normal return is preceded by super()._validate(...) and its result is kept"
        if not supers:
            why = "override of %s never calls super()._validate: the parent's constraints are dropped" % parent.qualname
        else:
            sset = set(supers)
            for r in rets:
                p = must_pass(an, f, r, lambda n: n in sset)
                if p is not None:
                    okc = False
                    why = "a path reaches `%s` (line %s) without super()._validate: the parent's constraints are skipped" % (
                        ast.unparse(r.ast), r.lineno)
                    break
            for s in supers:
                par = getattr(s.ast, "_parent", None)
                if isinstance(par, ast.Expr):
                    okc = False
                    why = "result of super()._validate(...) is discarded: the parent's normalisation is lost"
        ctx.ob("validator.super-chain", f, "%s._validate chains to %s" % (c.name, parent.qualname), okc, why)


def check_pair_validator(ctx):
    """DictProxy._validate hands back (the validated key, the validated value): component 0 of everything it returns is the
    result of key_field.validate(cfg, key), component 1 the result of value_field.validate(cfg, value) -- not the raw key, not
    the other component.  (Followed through locals, and through a local list filled by appends in order.)"""
    an, model = ctx.an, ctx.model
    f = model.method("DictProxy", "_validate")
    g = an.cfg(f)
    order = {id(n): i for i, n in enumerate(g.nodes)}
    kparam, vparam = f.positional_params[1], f.positional_params[2]

    def field_of(recv, at):
        if isinstance(recv, ast.Attribute) and isinstance(recv.value, ast.Name) and recv.value.id == f.self_name:
            return recv.attr
        if isinstance(recv, ast.Name):
            attrs = set()
            for k, pl in value_sources(f, recv, at):
                if k == "expr" and isinstance(pl, ast.Attribute) and isinstance(pl.value, ast.Name) and pl.value.id == f.self_name:
                    attrs.add(pl.attr)
                elif k == "unpack" and isinstance(pl[0], (ast.Tuple, ast.List)) and pl[1] is not None and pl[1] < len(pl[0].elts) \
                        and isinstance(pl[0].elts[pl[1]], ast.Attribute):
                    attrs.add(pl[0].elts[pl[1]].attr)
                else:
                    return None
            return attrs.pop() if len(attrs) == 1 else None
        return None

    def describe(e, at, depth=0):
        """set of (field attr, input param) pairs the expression is the validation result of; None in the set = something else"""
        if depth > 6:
            return {None}
        if isinstance(e, ast.Call) and isinstance(e.func, ast.Attribute) and e.func.attr == "validate" and len(e.args) >= 2:
            nn = g.nodes_for(e)
            fld = field_of(e.func.value, nn[0] if nn else at)
            srcs = value_sources(f, e.args[1], nn[0] if nn else at)
            inp = {pl if k == "param" else None for k, pl in srcs}
            return {(fld, inp.pop() if len(inp) == 1 else None)}
        if isinstance(e, ast.Name):
            out = set()
            for k, pl in value_sources(f, e, at):
                if k == "expr" and isinstance(pl, ast.AST) and pl is not e:
                    out |= describe(pl, None, depth + 1)
                elif k == "unpack" and isinstance(pl[0], (ast.Tuple, ast.List)) and pl[1] is not None and pl[1] < len(pl[0].elts):
                    out |= describe(pl[0].elts[pl[1]], pl[2], depth + 1)
                elif k == "unpack" and isinstance(pl[0], ast.Name) and pl[1] is not None:
                    # a, b = acc   (acc: a local list filled by appends)
                    out |= describe(ast.Subscript(value=pl[0], slice=ast.Constant(value=pl[1]), ctx=ast.Load()), pl[2], depth + 1)
                else:
                    out.add(None)
            return out or {None}
        if isinstance(e, ast.Subscript) and isinstance(e.value, ast.Name) and isinstance(e.slice, ast.Constant) and isinstance(e.slice.value, int):
            # acc[i] of a local list: the i-th append in program order
            apps = sorted([n for n in g.nodes if n.kind == "call" and isinstance(n.ast.func, ast.Attribute) and n.ast.func.attr == "append"
                           and isinstance(n.ast.func.value, ast.Name) and n.ast.func.value.id == e.value.id and n.ast.args], key=lambda n: order[id(n)])
            if 0 <= e.slice.value < len(apps):
                return describe(apps[e.slice.value].ast.args[0], apps[e.slice.value], depth + 1)
        return {None}
    nret = 0
    for r in returns_of(an, f):
        v = r.ast.value
        comps = None
        if isinstance(v, ast.Tuple) and len(v.elts) == 2:
            comps = [(v.elts[0], r), (v.elts[1], r)]
        elif isinstance(v, ast.Name):
            ss = value_sources(f, v, r)
            if len(ss) == 1 and ss[0][0] == "expr" and isinstance(ss[0][1], ast.Tuple) and len(ss[0][1].elts) == 2:
                comps = [(ss[0][1].elts[0], None), (ss[0][1].elts[1], None)]
        nret += 1
        if comps is None:
            ctx.ob("pair.returns-validated", f, r.ast, False, "DictProxy._validate does not return a (key, value) pair", node=r)
            continue
        want = [("key_field", kparam), ("value_field", vparam)]
        bad = None
        for i, (ce, at) in enumerate(comps):
            d = describe(ce, at)
            if d != {want[i]}:
                bad = "component %d (%s) is %s, not the result of self.%s.validate(cfg, %s)" % (
                    i, "key" if i == 0 else "value", "the unvalidated " + ast.unparse(ce) if d == {None} else
                    "validated by %s" % sorted(str(x) for x in d), want[i][0], want[i][1])
                break
        ctx.ob("pair.returns-validated", f, r.ast, bad is None,
               "returns (key_field.validate(key), value_field.validate(value))" if bad is None else
               "DictProxy._validate: %s -- the dict stores something its field never normalised" % bad, node=r)
    ctx.need(nret >= 1, "DictProxy._validate has no return")


def check_validate_chain(ctx):
    """Field.validate (and overrides): non-None values go through self._validate on every path and
    the result (or the custom validator's result) is what is returned."""
    an, model = ctx.an, ctx.model
    impls = an.types.cha("Field", "validate")
    ctx.need(bool(impls), "Field.validate vanished")
    for f in impls:
        g = an.cfg(f)
        params = f.positional_params
        ctx.need(len(params) >= 3, "%s has an unexpected signature" % f.qualname)
        vparam = params[2]
        vcalls = [n for n in g.nodes if n.kind == "call" and isinstance(n.ast.func, ast.Attribute)
                  and n.ast.func.attr == "_validate" and isinstance(n.ast.func.value, ast.Name)
                  and n.ast.func.value.id == f.self_name]
        if not vcalls:
            # an override that validates nothing is acceptable only if nothing can be stored through it
            sv = f.cls.lookup("__setval__")
            stores = sv is not None and an.cfg(sv).exit in reachable_from_entry(an, sv)
            ctx.ob("validate.chain", f, "%s never calls _validate" % f.qualname, not stores,
                   "exempt: %s always raises, so nothing validated here is ever stored" % sv.qualname if not stores
                   else "validate() skips _validate but %s stores the value" % (sv.qualname if sv else "?"),
                   nontrivial=False)
            continue
        vset = set(vcalls)
        ok, why = True, "every non-None value passes self._validate(...) and the returned value is its (or the custom validator's) result"
        for r in returns_of(an, f):
            guards = dominating_guards(an, f, r)
            none_guard = any(truth and isinstance(t.ast, ast.Compare) and isinstance(t.ast.ops[0], ast.Is)
                             and isinstance(t.ast.comparators[0], ast.Constant) and t.ast.comparators[0].value is None
                             and isinstance(t.ast.left, ast.Name) and t.ast.left.id == vparam for t, truth in guards)
            if none_guard:
                continue
            p = must_pass(an, f, r, lambda n: n in vset)
            if p is not None:
                ok, why = False, "`%s` (line %s) is reachable without self._validate(...)" % (ast.unparse(r.ast), r.lineno)
                break
            for kind, payload in value_sources(f, r.ast.value, r):
                good = kind == "expr" and isinstance(payload, ast.Call) and called_attr(f, payload) in ("_validate", "validator")
                if not good:
                    ok, why = False, "returned value may be %s %s instead of the validated result" % (
                        kind, ast.unparse(payload)[:40] if isinstance(payload, ast.AST) else payload)
            if not ok:
                break
        ctx.ob("validate.chain", f, "%s: required -> _validate -> validator" % f.qualname, ok, why)
        for n in g.nodes:
            if n.kind == "call" and called_attr(f, n.ast, n) in ("validator", "_validate") and len(n.ast.args) == 2:
                a0, a1 = n.ast.args
                okc = all(k == "param" and p == params[1] for k, p in value_sources(f, a0, n)) and not (
                    isinstance(a1, ast.Name) and a1.id == params[1])
                ctx.ob("validate.call-args", f, n.ast, okc, "called with (cfg, value)" if okc else
                       "%s is not called with (cfg, value): validators receive their arguments in the wrong order" % ast.unparse(n.ast.func), node=n)


def check_container_validators(ctx):
    """ListField/DictField: _validate and to_python hand back either the raw value (no item field
    configured) or a proxy *constructed* for this configuration and this field -- never a proxy that
    was built for another field and merely re-labelled."""
    an, model = ctx.an, ctx.model
    proxies = [c for c in model.classes.values() if c.node is not None and (c.is_subclass_of("list") or c.is_subclass_of("dict"))]
    owner_attrs = set()
    for c in proxies:
        init = c.methods.get("__init__")
        if init is None:
            continue
        for x in ast.walk(init.node):
            if isinstance(x, ast.Assign) and isinstance(x.value, ast.Name) and x.value.id in [a.arg for a in init.params]:
                for t in x.targets:
                    if isinstance(t, ast.Attribute) and isinstance(t.value, ast.Name) and t.value.id == init.self_name:
                        owner_attrs.add(t.attr)
    ctx.need(bool(owner_attrs), "proxy constructors no longer record their configuration / field")
    # (a) nobody re-binds cfg / list_field / dict_field of an existing proxy
    for fn in an.fns():
        ft = an.ft(fn)
        for n in an.cfg(fn).nodes:
            if n.kind != "assign" or not isinstance(n.ast, (ast.Assign, ast.AugAssign, ast.AnnAssign)):
                continue
            tgts = n.ast.targets if isinstance(n.ast, ast.Assign) else [n.ast.target]
            for t in tgts:
                if isinstance(t, ast.Attribute) and t.attr in owner_attrs:
                    bt = ft.type_of(t.value, ft.env_in.get(n) or {})
                    is_proxy = bt != ANY and any(isinstance(a, str) and a in model.classes and model.classes[a] in proxies for a in bt)
                    if not is_proxy:
                        continue
                    ok = fn.cls in proxies and fn.name == "__init__" and isinstance(t.value, ast.Name) and t.value.id == fn.self_name
                    ctx.ob("proxy.owner-fixed", fn, n.ast, ok,
                           "set once by the proxy's constructor" if ok else
                           "%s re-binds .%s of an existing proxy: its items were validated by another field and are now presented as this "
                           "field's" % (fn.qualname, t.attr), node=n, nontrivial=not ok)
    # (b) what the typed fields return
    for cname, pname in (("ListField", "ListProxy"), ("DictField", "DictProxy")):
        pc = model.cls(pname)
        for mname in ("_validate", "to_python"):
            f = model.method(cname, mname)
            ft = an.ft(f)
            vparam = f.positional_params[2]
            for r in returns_of(an, f):
                srcs = value_sources(f, r.ast.value, r) if r.ast.value is not None else []
                ok, why = True, "returns the raw value only without item validation configured, otherwise a proxy constructed for (cfg, self)"
                for kind, payload in srcs:
                    if kind == "param" and payload == vparam:
                        # raw value: only when no item/key/value field is configured -- the return must be
                        # unreachable once the edges that establish "untyped" are cut
                        # (the function specialised for "a typed item field is configured": flags and early exits follow)
                        from engine.specialize import Spec

                        def is_item_field(e, f=f, depth=0):
                            if isinstance(e, ast.Attribute) and e.attr in ("field", "_use_proxy", "key_field", "value_field") and isinstance(e.value, ast.Name) \
                                    and e.value.id == f.self_name:
                                return True
                            if isinstance(e, ast.Name) and depth < 3:
                                srcs_ = []
                                for k_, pl_ in value_sources(f, e, None):
                                    if k_ == "unpack" and isinstance(pl_[0], (ast.Tuple, ast.List)) and pl_[1] is not None and pl_[1] < len(pl_[0].elts):
                                        srcs_.append(pl_[0].elts[pl_[1]])
                                    elif k_ == "expr" and isinstance(pl_, ast.AST):
                                        srcs_.append(pl_)
                                    else:
                                        return False
                                return bool(srcs_) and all(is_item_field(x_, f, depth + 1) for x_ in srcs_)
                            return False

                        def typed(e, node):
                            if is_item_field(e):
                                return True
                            if isinstance(e, ast.Compare) and len(e.ops) == 1 and is_item_field(e.left) and isinstance(e.comparators[0], ast.Constant) \
                                    and e.comparators[0].value is None:
                                return isinstance(e.ops[0], (ast.IsNot, ast.NotEq))
                            if isinstance(e, ast.Call) and ast.unparse(e.func) == "isinstance" and len(e.args) == 2 and is_item_field(e.args[0]) \
                                    and "AnyField" in ast.unparse(e.args[1]):
                                return False
                            return None
                        spt = Spec(an, f, typed)
                        p = None if r not in spt.nodes else [r]
                        if p is not None:
                            ok, why = False, "the unvalidated value itself is returned although an item field is configured"
                    elif kind == "expr" and isinstance(payload, ast.Call):
                        nodes = an.cfg(f).nodes_for(payload)
                        tg = an.targets(f, nodes[0]) if nodes else []
                        if tg and all(t.kind == "ctor" and t.cls is pc for t in tg):
                            a = payload.args
                            good = len(a) >= 2 and isinstance(a[1], ast.Name) and a[1].id == f.self_name and \
                                all(k == "param" for k, _ in value_sources(f, a[0], nodes[0]))
                            if not good:
                                ok, why = False, "the proxy is not constructed for (cfg, self)"
                        else:
                            ok, why = False, "returns %s, which is not a %s constructed for this field: its items were not validated by this field" % (
                                ast.unparse(payload)[:40], pname)
                    else:
                        ok, why = False, "returns a value of unknown origin (%s)" % kind
                ctx.ob("container.returns-own-proxy", f, r.ast, ok, why, node=r)


def check_key_lemma(ctx):
    """L1: a field stored under name k in a field table is told that its key is k."""
    an, model = ctx.an, ctx.model
    n = 0
    for fn in (model.method("Schema", "_add_field"), model.method("Config", "_set_value")):
        g = an.cfg(fn)
        for node in g.nodes:
            for owner, op, key, val in container_mutations(an, fn, node, "_fields"):
                if op != "setitem" or key is None:
                    continue
                n += 1
                # the __setkey__ call that follows must name the same key
                sk = [m for m in g.nodes if m.kind == "call" and isinstance(m.ast.func, ast.Attribute) and m.ast.func.attr == "__setkey__"]
                ok = False
                for m in sk:
                    if len(m.ast.args) >= 2 and same_name_value(fn, m.ast.args[1], m, key, node) and \
                            (g.path(node, lambda x, m=m: x is m, may_raise=lambda x: False, from_successors=True) or
                             g.path(m, lambda x: x is node, may_raise=lambda x: False, from_successors=True)):
                        ok = True           # told its key right after, or right before, being registered
                ctx.ob("lemma.key-invariant", fn, node.ast, ok,
                       "the field registered under %s is told the same key through __setkey__" % ast.unparse(key) if ok else
                       "the field registered under %s is not given that key: values are stored under a key the field table does not know" % ast.unparse(key),
                       node=node)
    ctx.need(n >= 2, "field table stores not found")
    bsk = model.method("BaseField", "__setkey__")
    sets = any(isinstance(x, ast.Assign) and any(isinstance(t, ast.Attribute) and t.attr == "_key" for t in x.targets) and isinstance(x.value, ast.Name)
               and x.value.id == bsk.positional_params[2] for x in ast.walk(bsk.node))
    ctx.ob("lemma.key-invariant", bsk, "self._key = key", sets, "BaseField.__setkey__ records the key" if sets else "BaseField.__setkey__ no longer records the key")
    # ... on every path: a field constructed with its own key= (or re-mounted under another name) is told the name it is
    # registered under all the same, otherwise paths, membership and stored values use a key the field table does not know
    gb = an.cfg(bsk)
    kp = bsk.positional_params[2]
    stores_ = {m for m in gb.nodes if m.kind == "assign" and isinstance(m.ast, ast.Assign) and any(
        isinstance(t, ast.Attribute) and t.attr == "_key" and isinstance(t.value, ast.Name) and t.value.id == bsk.self_name for t in m.ast.targets)
        and isinstance(m.ast.value, ast.Name) and m.ast.value.id == kp}
    if sets:
        from engine.flow import path_avoiding as _pa
        skip_ = _pa(an, bsk, gb.entry, lambda x: x is gb.exit, lambda x: x in stores_)
        ctx.ob("lemma.key-invariant", bsk, "self._key = key on every path", skip_ is None,
               "the key the schema provides is recorded unconditionally" if skip_ is None else
               "BaseField.__setkey__ can return without recording the key it was given (a field that already has a key keeps it): the field "
               "is registered under one name and reports, stores and resolves under another")


def check_type_gates(ctx):
    """every validator that does not start from a validating parent rejects values of the wrong type"""
    an, model = ctx.an, ctx.model
    Field = model.cls("Field")
    for c in Field.subclasses(strict=True):
        f = c.methods.get("_validate")
        if f is None or len(f.positional_params) < 3:
            continue
        g = an.cfg(f)
        vparam = f.positional_params[2]
        chained = any(n.kind == "call" and FnTypes.is_super_call(n.ast.func) and n.ast.func.attr == "_validate" for n in g.nodes)
        if chained:
            continue
        # specialised for "the value is of none of the types the validator tests for": every isinstance(value, ...) is False
        # (also when the test is stored in a local flag first); no normal return may remain
        from engine.specialize import Spec

        def is_value(e, node, f=f, vparam=vparam):
            if not isinstance(e, ast.Name):
                return False
            if e.id == vparam:
                srcs = value_sources(f, e, node)
                return all(k == "param" for k, _ in srcs) if srcs else True
            srcs = value_sources(f, e, node)
            return bool(srcs) and all(k == "param" and p_ == vparam for k, p_ in srcs)
        seen_gate = []

        def decide(e, node):
            if isinstance(e, ast.Call) and isinstance(e.func, ast.Name) and e.func.id == "isinstance" and len(e.args) == 2 and is_value(e.args[0], node):
                seen_gate.append(e)
                return False
            return None
        gate = any(isinstance(x, ast.Call) and isinstance(x.func, ast.Name) and x.func.id == "isinstance" and len(x.args) == 2
                   and isinstance(x.args[0], ast.Name) and x.args[0].id == vparam for x in ast.walk(f.node))
        sp = Spec(an, f, decide)
        accepted = sp.normal_returns() or sp.falls_off()
        ctx.ob("validator.type-gate", f, "%s._validate rejects values of the wrong type" % c.name, gate and not accepted,
               "a value matching none of the accepted types ends in raise" if gate and not accepted else
               "%s._validate %s: a value of the wrong type is handed on / stored" % (c.name, "has no type test" if not gate else
                                                                                     "can return without any isinstance(value, ...) test having matched"))


def check_shared_constraints(ctx):
    """C05.1/2/3 re-evaluated here: a validated gateway keeps invalid values out only if the bounds,
    lengths and normalisation it enforces are the declared ones."""
    from . import c05
    sub = type(ctx)(ctx.pid, ctx.an, ctx.tier)
    c05.check_bounds(sub)
    c05.check_string_order(sub)
    c05.check_bool_number(sub)
    c05.check_regex_anchors(sub)
    ctx.obligations.extend(sub.obligations)


def check(ctx):
    check_gateway(ctx)
    check_key_lemma(ctx)
    check_type_gates(ctx)
    check_container_validators(ctx)
    check_shared_constraints(ctx)
    check_validate_chain(ctx)
    check_pair_validator(ctx)
    check_load_tree(ctx)
    check_override(ctx)
    check_taint(ctx)
    check_validators(ctx)
    from .links import check_adopted
    check_adopted(ctx, schema_rule="adopt.schema-checked")
