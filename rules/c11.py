"""C11 -- a load that returns means required fields are set and every validator passed."""
from __future__ import annotations

import ast

from engine.defuse import value_sources
from engine.flow import (dominating_guards, must_pass, path_avoiding, reachable_from_entry, returns_of,
                         same_name_value)
from .common import CALLS

META = {
    "explanation": (
        "Decides that validation cannot be skipped or its errors dropped, on every path: load_tree ends in "
        "self.validate() unless its validate flag is false, loads/load reach load_tree with the default; "
        "Schema._validate hands every field to _validate_field except the three kinds that hold no loadable "
        "value, calls every registered validator, returns early only when the feature flag of *this* "
        "configuration is off, and in each handler either raises or appends that very error (never both "
        "skipped); _validate_field validates Field values and recurses into Config values; Field.validate "
        "tests `required` before the None short-circuit; String/List/Dict reject required-but-empty; list "
        "items that are configurations are loaded-with-validation or validated when inserted; validator() "
        "registers the function for both kinds of target, and a second registration on a field keeps the first (the store "
        "is guarded by 'no validator yet' or stores a function that calls both)."),
    "decided": ["C11.1 load_tree/loads/load end in validation", "C11.2 Schema._validate visits every field and validator, drops no error",
                "C11.3 _validate_field total over Field / Config values", "C11.4 required before None; required-and-empty rejections",
                "C11.5 ListProxy._validate validates configuration items", "C11.6 validator() registration for fields and schemas"],
    "not_decided": ["what an unset feature flag means; behaviour of user validators"],
}

SKIP_ALLOWED = {"IncludeFieldMixin", "VirtualFieldMixin", "InstanceMethodFieldMixin"}


def pth(p):
    return " -> ".join("%s@%s" % (x.kind, x.lineno) for x in p[:14])


def calls_to(an, fn, pred):
    return {n for n in an.cfg(fn).nodes if any(pred(c) for c in an.callees(fn, n))}


def check(ctx):
    an, model = ctx.an, ctx.model
    Config = model.cls("Config")
    # ---------------------------------------------------------------- C11.1
    lt = model.method("Config", "load_tree")
    g = an.cfg(lt)
    vcalls = {n for n in g.nodes if n.kind == "call" and any(c.name == "validate" and c.cls is not None and c.cls.is_subclass_of(Config)
                                                             for c in an.callees(lt, n))
              and isinstance(n.ast.func, ast.Attribute) and isinstance(n.ast.func.value, ast.Name) and n.ast.func.value.id == lt.self_name}
    ctx.need("validate" in [a.arg for a in lt.params], "load_tree lost its validate parameter")

    def cut_validate_false(a, b, lbl):
        if a.kind == "test" and isinstance(a.ast, ast.Name) and lbl is False:
            srcs = value_sources(lt, a.ast, a)
            if a.ast.id == "validate" or (srcs and all(k == "param" and p == "validate" for k, p in srcs)):
                return False
        return True

    p = path_avoiding(an, lt, g.entry, lambda n: n is g.exit, lambda n: n in vcalls, edge_filter=cut_validate_false)
    ctx.ob("load_tree.ends-in-validate", lt, "self.validate() on every normal path unless validate is false", p is None,
           "every normal return of load_tree has run self.validate()" if p is None else
           "load_tree can return without validating: %s" % pth(p))
    # default of the flag
    d = dict(zip([a.arg for a in lt.node.args.args][-len(lt.node.args.defaults):], lt.node.args.defaults)) if lt.node.args.defaults else {}
    dv = d.get("validate")
    okd = isinstance(dv, ast.Constant) and dv.value is True
    ctx.ob("load_tree.validate-default", lt, "validate: bool = True", okd,
           "validation is on by default" if okd else "load_tree no longer validates by default")
    # other tree loaders of Config that end in validation the way load_tree does (a new `merge_tree(tree, validate=True)`):
    # a document load may go through any of them
    def validating_loader(fn2):
        if fn2 is lt:
            return True
        if fn2.cls is None or not fn2.cls.is_subclass_of(Config) or "validate" not in [a.arg for a in fn2.params] or fn2.name.startswith("__"):
            return False
        dd = dict(zip([a.arg for a in fn2.node.args.args][-len(fn2.node.args.defaults):], fn2.node.args.defaults)) if fn2.node.args.defaults else {}
        if not (isinstance(dd.get("validate"), ast.Constant) and dd["validate"].value is True):
            return False
        g2 = an.cfg(fn2)
        v2 = {n for n in g2.nodes if n.kind == "call" and any(c.name == "validate" and c.cls is not None and c.cls.is_subclass_of(Config)
                                                              for c in an.callees(fn2, n))
              and isinstance(n.ast.func, ast.Attribute) and isinstance(n.ast.func.value, ast.Name) and n.ast.func.value.id == fn2.self_name}

        def cut2(a, b, lbl):
            if a.kind == "test" and isinstance(a.ast, ast.Name) and lbl is False:
                srcs = value_sources(fn2, a.ast, a)
                if a.ast.id == "validate" or (srcs and all(k == "param" and p_ == "validate" for k, p_ in srcs)):
                    return False
            return True
        return bool(v2) and path_avoiding(an, fn2, g2.entry, lambda n: n is g2.exit, lambda n: n in v2, edge_filter=cut2) is None
    loaders = {m for m in Config.methods.values() if validating_loader(m)}
    for name, callee_name in (("loads", "load_tree"), ("load", "loads")):
        f = model.method("Config", name)
        gf = an.cfg(f)
        cs = {n for n in gf.nodes if n.kind == "call" and any(
            ((c in loaders) if callee_name == "load_tree" else (c.name == callee_name and c.cls is not None and c.cls.is_subclass_of(Config)))
            for c in an.callees(f, n))}
        ctx.need(bool(cs), "Config.%s no longer calls %s: vanished anchor" % (name, callee_name))
        p = path_avoiding(an, f, gf.entry, lambda n: n is gf.exit, lambda n: n in cs)
        ctx.ob("%s.reaches-%s" % (name, callee_name), f, "Config.%s -> %s" % (name, callee_name), p is None,
               "every normal path goes through %s" % callee_name if p is None else "%s can return without %s: %s" % (name, callee_name, pth(p)))
        if callee_name == "load_tree":
            for n in cs:
                off = None
                for kw in n.ast.keywords:
                    if kw.arg == "validate" and not (isinstance(kw.value, ast.Constant) and kw.value.value is True):
                        off = kw.value
                if len(n.ast.args) >= 2 and not (isinstance(n.ast.args[1], ast.Constant) and n.ast.args[1].value is True):
                    off = n.ast.args[1]
                ctx.ob("loads.validate-on", f, n.ast, off is None,
                       "load_tree is called with validation on" if off is None else "document loads pass validate=%s" % ast.unparse(off), node=n)

    # Config.validate delegates to the schema with this config
    cv = model.method("Config", "validate")
    sv = model.method("Schema", "_validate")
    gcv = an.cfg(cv)
    dn = [n for n in gcv.nodes if sv in an.callees(cv, n)]
    okv = bool(dn) and all(n.ast.args and isinstance(n.ast.args[0], ast.Name) and n.ast.args[0].id == cv.self_name for n in dn) \
        and path_avoiding(an, cv, gcv.entry, lambda n: n is gcv.exit, lambda n: n in dn) is None
    ctx.ob("validate.delegates", cv, "Config.validate -> Schema._validate(self, ...)", okv,
           "validates this configuration against its schema on every path" if okv else "Config.validate no longer runs the schema validation of itself")
    okr = all(any(k == "expr" and isinstance(pl, ast.Call) and sv in an.callees(cv, gcv.nodes_for(pl)[0]) for k, pl in value_sources(cv, r.ast.value, r))
              for r in returns_of(an, cv) if r.ast.value is not None) and bool(returns_of(an, cv))
    ctx.ob("validate.returns-errors", cv, "return value of Config.validate", okr,
           "returns the schema's error list" if okr else "Config.validate no longer returns the collected errors")

    # ---------------------------------------------------------------- C11.2 Schema._validate
    g = an.cfg(sv)
    vf = model.method("Schema", "_validate_field")
    loops = [n for n in g.nodes if n.kind == "for_iter" and isinstance(n.ast, ast.For)]
    f_loop = v_loop = None
    for h in loops:
        attrs = {x.attr for x in ast.walk(h.ast.iter) if isinstance(x, ast.Attribute)}
        if "_fields" in attrs:
            f_loop = h
        elif "_validators" in attrs:
            v_loop = h
    if f_loop is not None and v_loop is None and not any(isinstance(x, ast.Attribute) and x.attr == "_validators" for x in ast.walk(sv.node)):
        ctx.ob("schema.every-validator", sv, "no reference to self._validators", False,
               "Schema._validate never looks at the registered schema validators: they are not run")
        return
    if v_loop is not None and f_loop is None and not any(isinstance(x, ast.Attribute) and x.attr == "_fields" for x in ast.walk(sv.node)):
        ctx.ob("schema.every-field", sv, "no reference to self._fields", False, "Schema._validate never looks at the schema's fields: no field is validated")
        return
    ctx.need(f_loop is not None and v_loop is not None, "Schema._validate loops over _fields/_validators not found")
    ft = an.ft(sv)

    def cut_skip(a, b, lbl):
        if a.kind == "test" and lbl is True and isinstance(a.ast, ast.Call) and isinstance(a.ast.func, ast.Name) \
                and a.ast.func.id == "isinstance" and len(a.ast.args) == 2:
            spec = ft.class_spec(a.ast.args[1], ft.env_in.get(a) or {})
            if spec and set(spec) <= SKIP_ALLOWED:
                return False
        return True

    b = [s for s, lbl in f_loop.succ if lbl is True][0]
    vf_calls = {n for n in g.nodes if vf in an.callees(sv, n)}
    p = path_avoiding(an, sv, b, lambda n: n is f_loop, lambda n: n in vf_calls, edge_filter=cut_skip, exceptions=False)
    ctx.ob("schema.every-field", sv, f_loop.ast.iter, p is None,
           "each field is handed to _validate_field unless it is an include / virtual / instance-method field" if p is None else
           "a value-holding field can be skipped by validation: %s" % pth(p), node=f_loop)
    # the skip tuple itself
    for t in g.nodes:
        if t.kind == "test" and isinstance(t.ast, ast.Call) and isinstance(t.ast.func, ast.Name) and t.ast.func.id == "isinstance" \
                and len(t.ast.args) == 2 and isinstance(t.ast.args[0], ast.Name):
            srcs = value_sources(sv, t.ast.args[0], t)
            if any(k == "iter" for k, _ in srcs):
                spec = ft.class_spec(t.ast.args[1], ft.env_in.get(t) or {})
                if spec is None:
                    ctx.ob("schema.skip-kinds", sv, t.ast, False, "cannot evaluate the kinds skipped by validation", node=t)
                else:
                    extra = sorted(set(spec) - SKIP_ALLOWED)
                    ctx.ob("schema.skip-kinds", sv, t.ast, not extra,
                           "skips only %s (a path consumed at load time; two kinds that hold no value)" % sorted(spec) if not extra else
                           "validation now also skips %s: values of that kind are never validated" % extra, node=t)
    b = [s for s, lbl in v_loop.succ if lbl is True][0]
    user_calls = set()
    for n in g.nodes:
        if n.kind == "call" and isinstance(n.ast.func, ast.Name):
            if any(k == "iter" and isinstance(pl[0], ast.Attribute) and pl[0].attr == "_validators"
                   for k, pl in value_sources(sv, n.ast.func, n)):
                user_calls.add(n)
    p = path_avoiding(an, sv, b, lambda n: n is v_loop, lambda n: n in user_calls, exceptions=False)
    ctx.ob("schema.every-validator", sv, v_loop.ast.iter, p is None and bool(user_calls),
           "every registered validator is called with the configuration" if p is None and user_calls else
           "a registered schema validator can be skipped", node=v_loop)
    for n in user_calls:
        okc = len(n.ast.args) == 1 and all(k == "param" for k, _ in value_sources(sv, n.ast.args[0], n))
        ctx.ob("schema.validator-arg", sv, n.ast, okc, "validators receive the configuration being validated" if okc else
               "validator is not called with the configuration being validated", node=n)

    # early return only when this configuration's feature flag is off
    def cut_feature_off(a, bb, lbl):
        if a.kind == "test" and isinstance(a.ast, ast.Call) and lbl is False:
            nodes = g.nodes_for(a.ast)
            for nn in nodes:
                if nn.kind == "call" and any(c.name == "_is_feature_enabled" for c in an.callees(sv, nn)):
                    return False
        return True

    for h, what in ((f_loop, "field validation"), (v_loop, "schema validators")):
        p = path_avoiding(an, sv, g.entry, lambda n: n is g.exit, lambda n, h=h: n is h, edge_filter=cut_feature_off)
        ctx.ob("schema.no-early-return", sv, "%s reached unless the feature flag is off" % what, p is None,
               "the only way around %s is `not self._is_feature_enabled(config)`" % what if p is None else
               "%s can be skipped although the feature is enabled: %s" % (what, pth(p)))
    for n in g.nodes:
        if n.kind == "call" and any(c.name == "_is_feature_enabled" for c in an.callees(sv, n)):
            okc = n.ast.args and all(k == "param" for k, _ in value_sources(sv, n.ast.args[0], n)) and \
                isinstance(n.ast.func, ast.Attribute) and isinstance(n.ast.func.value, ast.Name) and n.ast.func.value.id == sv.self_name
            ctx.ob("schema.feature-flag-own", sv, n.ast, bool(okc),
                   "the flag consulted is this schema's, evaluated on the configuration being validated" if okc else
                   "the feature flag is not evaluated on the configuration being validated", node=n)

    # the exemption is decided from this schema's own flag fields on the configuration being validated -- nothing above it
    ife = model.method("Schema", "_is_feature_enabled")
    cp = ife.positional_params[1]
    for x in ast.walk(ife.node):
        if isinstance(x, ast.Call) and isinstance(x.func, ast.Attribute) and x.func.attr in ("is_feature_enabled", "_is_feature_enabled"):
            okx = bool(x.args) and all(k == "param" and p == cp for k, p in value_sources(ife, x.args[0], None))
            own = x.func.attr == "is_feature_enabled"
            ctx.ob("exemption.scope", ife, x, okx and own,
                   "a flag field of this schema, evaluated on the configuration being validated" if okx and own else
                   "the exemption of a configuration depends on %s: a configuration that is itself enabled can be exempted by something "
                   "outside it" % ("another configuration's flags (%s)" % ast.unparse(x)[:50]), node=x)
        if isinstance(x, ast.Attribute) and x.attr in ("_parent", "_container") and model.enclosing_function(x) is ife:
            ctx.ob("exemption.scope", ife, x, False,
                   "the exemption looks at %s: flags of an enclosing configuration exempt this one" % ast.unparse(x), node=x)
    # handlers: raise or append that error
    handlers = [n for n in g.nodes if n.kind == "handler"]
    ctx.need(len(handlers) >= 2, "Schema._validate has no exception handlers any more")
    ret_names = set()
    for r in returns_of(an, sv):
        if isinstance(r.ast.value, ast.Name):
            ret_names.add(r.ast.value.id)
    from engine.specialize import Spec
    raising_mode = Spec(an, sv, lambda e, node: False if isinstance(e, ast.Name) and e.id == "collect_errors" else None)
    for h in handlers:
        hbody = set()
        for st in h.ast.body:
            for x in ast.walk(st):
                hbody.add(id(x))
        def is_ret_list(x, at):
            if not isinstance(x, ast.Name):
                return False
            if x.id in ret_names:
                return True
            srcs = value_sources(sv, x, at)         # the returned list under the local name of an inlined helper
            # (`sink = errors if collect_errors else None`: calling .append on None raises, it drops nothing)
            srcs = [(k, pl) for k, pl in srcs if not (k == "expr" and isinstance(pl, ast.Constant) and pl.value is None)]
            return bool(srcs) and all(k == "expr" and isinstance(pl, ast.Name) and pl.id in ret_names for k, pl in srcs) or \
                bool(srcs) and {(k, ast.unparse(pl) if isinstance(pl, ast.AST) else pl) for k, pl in srcs} == \
                {(k, ast.unparse(pl) if isinstance(pl, ast.AST) else pl) for rn_ in ret_names for k, pl in value_sources(sv, ast.Name(id=rn_, ctx=ast.Load()), at)}
        appends = {n for n in g.nodes if n.kind == "call" and id(n.ast) in hbody and isinstance(n.ast.func, ast.Attribute)
                   and n.ast.func.attr == "append" and is_ret_list(n.ast.func.value, n)}

        def outside(n):
            a = n.ast if n.ast is not None else n.stmt
            return a is None or (id(a) not in hbody and n.kind not in ("raise_exit",) and not (n.kind == "bind" and n.ast is h.ast))

        def leaves(n):
            return n.kind in ("for_iter", "exit", "return") or (outside(n) and n.kind not in ("raise_exit", "handler", "bind"))

        # (i) the error is never dropped
        p = path_avoiding(an, sv, h, leaves, lambda n: n in appends, from_successors=True)
        ctx.ob("handler.no-drop", sv, h.ast.type if h.ast.type is not None else "except:", p is None,
               "the handler either raises or appends the error to the returned list" if p is None else
               "the handler can swallow the error: %s" % pth(p), node=h)
        # (ii) in raising mode it raises: continuing requires collect_errors to be true
        # (the function specialised for collect_errors false: flags computed from it, `fail_fast = not collect_errors`, follow)
        p = g.path(h, leaves, may_raise=lambda n: an.node_may_raise(sv, n), from_successors=True, edge_filter=raising_mode.edge_ok)
        ctx.ob("handler.raises-unless-collecting", sv, h.ast.type if h.ast.type is not None else "except:", p is None,
               "without collect_errors the handler always raises" if p is None else
               "in raising mode the handler continues without raising (load_tree ignores the returned list)", node=h)
        # (ii') what it raises is a validation error: the caught ValidationError itself, or one built from the caught exception
        catches_ve = h.ast.type is not None and "ValidationError" in (an.ft(sv).class_spec(h.ast.type, {}) or []) and \
            (an.ft(sv).class_spec(h.ast.type, {}) or []) == ["ValidationError"]
        for rn in [n for n in g.nodes if n.kind == "raise" and n.stmt is not None and id(n.stmt) in hbody]:
            exc = n_exc = rn.stmt.exc
            good = True
            if exc is None:
                good = catches_ve
            else:
                for k, pl in value_sources(sv, exc, rn):
                    if k == "except":
                        good = good and catches_ve
                    elif k == "expr" and isinstance(pl, ast.Call):
                        nn = g.nodes_for(pl)
                        tg = an.targets(sv, nn[0]) if nn else []
                        good = good and bool(tg) and all(t.kind == "ctor" and t.cls is not None and t.cls.name == "ValidationError" for t in tg)
                    else:
                        good = False
            ctx.ob("handler.raises-validation-error", sv, rn.stmt, good,
                   "what leaves the handler is a validation error" if good else
                   "the handler for %s re-raises the caught exception as it is: a failing validator surfaces as a foreign exception type, not as a "
                   "validation error" % (ast.unparse(h.ast.type) if h.ast.type is not None else "everything"), node=rn)
        # (iii) what is appended is the caught error or a ValidationError built from it
        for a in appends:
            arg = a.ast.args[0] if a.ast.args else None
            okk = False
            if arg is not None:
                okk = True
                for k, pl in value_sources(sv, arg, a):
                    if k == "except":
                        continue
                    if k == "expr" and isinstance(pl, ast.Call):
                        tg = an.targets(sv, g.nodes_for(pl)[0])
                        if tg and all(t.kind == "ctor" and t.cls.name == "ValidationError" for t in tg) and \
                                any(isinstance(x, ast.Name) and (x.id == h.ast.name or (
                                    (lambda ss: bool(ss) and all(k2 == "except" for k2, _ in ss))(value_sources(sv, x, a)))) for x in ast.walk(pl)):
                            continue
                    okk = False
            ctx.ob("handler.appends-that-error", sv, a.ast, okk,
                   "appends the caught error (wrapped in ValidationError where needed)" if okk else
                   "what is appended is not the error that was caught", node=a)
    okret = bool(ret_names) and len(ret_names) == 1
    ctx.ob("schema.returns-errors", sv, "return errors", okret, "returns the list the handlers append to" if okret else
           "Schema._validate does not return its error list")

    # ---------------------------------------------------------------- C11.3 _validate_field
    g = an.cfg(vf)
    Field = model.cls("Field")
    fv = {n for n in g.nodes if n.kind == "call" and any(c.name == "validate" and c.cls is not None and c.cls.is_subclass_of(Field) for c in an.callees(vf, n))}
    cvn = {n for n in g.nodes if n.kind == "call" and any(c.name == "validate" and c.cls is not None and c.cls.is_subclass_of(Config) for c in an.callees(vf, n))}
    ctx.need(bool(fv) and bool(cvn), "_validate_field no longer validates fields and sub-configurations: vanished anchor")

    def cut_not_config(a, bb, lbl):
        if a.kind == "test" and lbl is False and isinstance(a.ast, ast.Call) and isinstance(a.ast.func, ast.Name) \
                and a.ast.func.id == "isinstance" and len(a.ast.args) == 2:
            spec = an.ft(vf).class_spec(a.ast.args[1], {})
            if spec and "Config" in spec:
                return False
        return True

    p = path_avoiding(an, vf, g.entry, lambda n: n is g.exit, lambda n: n in fv or n in cvn, edge_filter=cut_not_config)
    ctx.ob("validate_field.total", vf, "Field -> validate; Config value -> recurse", p is None,
           "the only unvalidated case is a non-Field whose value is not a configuration" if p is None else
           "a field or sub-configuration can pass unvalidated: %s" % pth(p))
    for n in fv:
        okk = len(n.ast.args) >= 2 and all(k == "expr" and isinstance(pl, ast.Call) and isinstance(pl.func, ast.Attribute)
                                          and pl.func.attr == "__getval__" for k, pl in value_sources(vf, n.ast.args[1], n))
        ctx.ob("validate_field.current-value", vf, n.ast, okk, "validates the value currently held (field.__getval__)" if okk else
               "validates something other than the currently held value", node=n)
    for n in cvn:
        okk = isinstance(n.ast.func, ast.Attribute) and all(k == "expr" and isinstance(pl, ast.Call) and isinstance(pl.func, ast.Attribute)
                                                              and pl.func.attr == "__getval__" for k, pl in value_sources(vf, n.ast.func.value, n))
        ctx.ob("validate_field.recurses", vf, n.ast, okk, "recurses into the held sub-configuration" if okk else
               "recursion does not target the held sub-configuration", node=n)
        coll = [kw for kw in n.ast.keywords if kw.arg == "collect_errors"] or n.ast.args
        if coll:
            # collecting below is fine when the mode is the caller's own and the nested list is handed up and kept: the nested call's
            # result is returned by _validate_field, Schema._validate passes its own collect_errors down and extends its list with
            # what comes back (in raising mode the nested validate() still raises)
            cval = coll[0].value if isinstance(coll[0], ast.keyword) else coll[0]
            own_mode = isinstance(cval, ast.Name) and cval.id in vf.positional_params + [a.arg for a in vf.node.args.kwonlyargs] \
                and all(k == "param" for k, _ in value_sources(vf, cval, n))
            returned = any(r.ast.value is not None and any(k == "expr" and pl is n.ast for k, pl in value_sources(vf, r.ast.value, r)) for r in returns_of(an, vf))
            kept = False
            gs_ = an.cfg(sv)
            for m in gs_.nodes:
                if m.kind == "call" and vf in an.callees(sv, m):
                    tg_ = [t for t in an.targets(sv, m) if t.kind == "fn" and t.fn is vf]
                    bound = an.bind_args(tg_[0], sv, m).get(cval.id) if tg_ and isinstance(cval, ast.Name) else None
                    passes_own = isinstance(bound, ast.Name) and bound.id == "collect_errors"
                    par = getattr(m.ast, "_parent", None)
                    extends = isinstance(par, ast.Call) and isinstance(par.func, ast.Attribute) and par.func.attr == "extend" and m.ast in par.args \
                        and isinstance(par.func.value, ast.Name)
                    if passes_own and extends:
                        kept = True
            if own_mode and returned and kept:
                coll = []
        ctx.ob("validate_field.recursion-raises", vf, n.ast, not coll,
               "nested validation runs in raising mode, so a nested failure surfaces" if not coll else
               "nested validation collects errors and the list is dropped", node=n)

    # ---------------------------------------------------------------- C11.4 required
    fval = Field.methods.get("validate")
    ctx.need(fval is not None, "Field.validate vanished")
    from engine.specialize import Spec

    def required_scenario(f, vparam, none):
        """f specialised for `self.required` true and the value None (none=True) / empty but not None (none=False)"""
        def decide(e, node, sp):
            def is_v(x, at=node, depth=0):
                """the value, or what stripping / case folding makes of it (an empty string stays empty)"""
                if not isinstance(x, ast.Name) or depth > 4:
                    return False
                if sp.rd is None:
                    return x.id == vparam
                srcs = sp.sources(x, at)
                return bool(srcs) and all(
                    (k == "param" and pl == vparam) or
                    (k == "expr" and isinstance(pl, ast.Call) and isinstance(pl.func, ast.Attribute) and not none
                     and pl.func.attr in ("strip", "lstrip", "rstrip", "lower", "upper", "casefold") and is_v(pl.func.value, sp.where.get(id(pl)), depth + 1))
                    for k, pl in srcs)
            if isinstance(e, ast.Attribute) and e.attr == "required" and isinstance(e.value, ast.Name) and e.value.id == f.self_name:
                return True
            if is_v(e):
                return False            # None and empty values are falsy
            if isinstance(e, ast.Compare) and len(e.ops) == 1 and is_v(e.left) and isinstance(e.comparators[0], ast.Constant) and e.comparators[0].value is None:
                if isinstance(e.ops[0], ast.Is):
                    return none
                if isinstance(e.ops[0], ast.IsNot):
                    return not none
            if not none and isinstance(e, ast.Compare) and len(e.ops) == 1 and isinstance(e.left, ast.Call) and isinstance(e.left.func, ast.Name) \
                    and e.left.func.id == "len" and len(e.left.args) == 1 and is_v(e.left.args[0]) and isinstance(e.comparators[0], ast.Constant) \
                    and e.comparators[0].value == 0:
                return isinstance(e.ops[0], (ast.Eq, ast.LtE))
            return None
        return Spec(an, f, decide)
    vparam = fval.positional_params[2]
    spn = required_scenario(fval, vparam, True)
    okq = not spn.normal_returns() and bool(spn.raises())
    why = "a required field rejects None before anything lets it through" if okq else (
        "None is returned although the field is required: a required field may stay unset" if spn.normal_returns() else "no rejection of None for required fields")
    ctx.ob("required.before-none", fval, "required and value is None -> raise, never return", okq, why)
    for cname in ("StringField", "ListField", "DictField"):
        f = model.method(cname, "_validate")
        spe = required_scenario(f, f.positional_params[2], False)
        found = not spe.normal_returns() and bool(spe.raises())
        ctx.ob("required.rejects-empty", f, "%s: required and empty -> reject" % cname, found,
               "an empty value is rejected when the field is required" if found else
               "%s no longer rejects an empty value for a required field" % cname)

    # ---------------------------------------------------------------- C11.5 list items
    lp = model.method("ListProxy", "_validate")
    g = an.cfg(lp)
    ft = an.ft(lp)
    okl, why = True, "configuration items are loaded with validation or validated before they are returned"
    good = set()
    for n in g.nodes:
        if n.kind != "call":
            continue
        cs = an.callees(lp, n)
        if any(c.name == "load_tree" and c.cls is not None and c.cls.is_subclass_of(Config) for c in cs):
            off = [kw for kw in n.ast.keywords if kw.arg == "validate" and not (isinstance(kw.value, ast.Constant) and kw.value.value is True)]
            if len(n.ast.args) >= 2 and not (isinstance(n.ast.args[1], ast.Constant) and n.ast.args[1].value is True):
                off.append(n.ast.args[1])
            if not off:
                good.add(n)
        if any(c.name == "validate" and c.cls is not None and c.cls.is_subclass_of(Config) for c in cs) and not n.ast.args and not n.ast.keywords:
            good.add(n)
    cfg_rets = []
    for r in returns_of(an, lp):
        t = ft.type_at(r, r.ast.value)
        if t != "ANY" and t and all(isinstance(a, str) and a in model.classes and model.classes[a].is_subclass_of(Config) for a in t):
            cfg_rets.append(r)
    ctx.need(bool(cfg_rets), "ListProxy._validate no longer returns configurations: vanished anchor")
    for r in cfg_rets:
        p = must_pass(an, lp, r, lambda n: n in good)
        if p is not None:
            okl, why = False, "a configuration item can enter the list unvalidated: %s" % pth(p)
    ctx.ob("list-items.validated", lp, "dict -> load_tree (validating); Config -> validate()", okl, why)

    # the same for every container of configurations (a dict of named configurations next to the list): a configuration object
    # handed in is validated before the container takes it
    from .links import check_adopted
    check_adopted(ctx, validated_rule="container-items.validated")

    # ---------------------------------------------------------------- C11.6 validator()
    vd = model.function("support", "validator")
    inner = [f for f in vd.nested]
    ctx.need(bool(inner), "support.validator lost its inner decorator")
    inn = inner[0]
    stores_field = stores_schema = False
    fparam = inn.positional_params[0] if inn.positional_params else None
    for x in ast.walk(inn.node):
        if isinstance(x, ast.Assign):
            for t in x.targets:
                if isinstance(t, ast.Attribute) and t.attr == "validator" and isinstance(x.value, ast.Name) and x.value.id == fparam:
                    stores_field = True
        if isinstance(x, ast.Call) and isinstance(x.func, ast.Attribute) and x.func.attr == "append" \
                and isinstance(x.func.value, ast.Attribute) and x.func.value.attr == "_validators" \
                and x.args and isinstance(x.args[0], ast.Name) and x.args[0].id == fparam:
            stores_schema = True
    ctx.ob("register.field", inn, "field.validator = func", stores_field, "field validators are registered" if stores_field else
           "validator() no longer registers field validators")
    ctx.ob("register.schema", inn, "schema._validators.append(func)", stores_schema, "schema validators are registered" if stores_schema else
           "validator() no longer registers schema validators")
    # a second registration keeps the first: a store to <field>.validator either happens only when there is no validator yet, or
    # stores a function that calls both the new function and the validator read *before* the store (a local copy -- an attribute read
    # inside the stored function would find the stored function itself)
    from engine.flow import guard_atoms, none_test
    g_in = an.cfg(inn)
    tparam = vd.positional_params[0] if vd.positional_params else None

    def is_prev_read(e, at):
        """e evaluates to <target>.validator as it was before the store at *at*"""
        for k, pl in value_sources(inn, e, at):
            if not (k == "expr" and isinstance(pl, ast.Attribute) and pl.attr == "validator"):
                return False
            base = value_sources(inn, pl.value, at)
            if not base or not all(bk == "param" and bp == tparam for bk, bp in base):
                return False
        return True

    for n in [n for n in g_in.nodes if n.kind == "assign"]:
        stv = n.ast
        tg = [t for t in getattr(stv, "targets", [getattr(stv, "target", None)]) if isinstance(t, ast.Attribute) and t.attr == "validator"]
        if not tg or getattr(stv, "value", None) is None:
            continue
        no_previous = False
        for e, truth, t in guard_atoms(an, inn, n):
            inner_e = none_test(e, True) if truth else none_test(e, False)
            if inner_e is not None and is_prev_read(inner_e, t):
                no_previous = True          # `<previous> is None` holds / `<previous> is not None` fails
            if not truth and isinstance(e, (ast.Name, ast.Attribute)) and is_prev_read(e, t):
                no_previous = True          # `if previous:` failed / `if not previous:` held
        okk, why = no_previous, "stored only when the field has no validator yet"
        if not no_previous:
            val = stv.value
            body = None
            if isinstance(val, ast.Lambda):
                body, largs = val.body, val.args
            elif isinstance(val, ast.Name):
                for nf in inn.nested:
                    if nf.name == val.id:
                        body, largs = ast.Module(body=nf.node.body, type_ignores=[]), nf.node.args
            if body is not None:
                own = {a.arg for a in largs.posonlyargs + largs.args + largs.kwonlyargs}
                defaults = dict(zip([a.arg for a in (largs.posonlyargs + largs.args)][::-1], largs.defaults[::-1]))
                defaults.update({a.arg: d for a, d in zip(largs.kwonlyargs, largs.kw_defaults) if d is not None})

                def outer_value(name_node):
                    if name_node.id in defaults:
                        return defaults[name_node.id]
                    return None if name_node.id in own else name_node
                calls_new = calls_prev = False
                for c in ast.walk(body):
                    if isinstance(c, ast.Call) and isinstance(c.func, ast.Name):
                        ov = outer_value(c.func)
                        if ov is None:
                            continue
                        srcs = value_sources(inn, ov, n)
                        if srcs and all(k == "param" and pn == fparam for k, pn in srcs):
                            calls_new = True
                        elif isinstance(ov, ast.Name) and is_prev_read(ov, n):
                            calls_prev = True
                okk = calls_new and calls_prev
                why = "the stored function runs the validator registered before and the new one" if okk else \
                    "a validator registered earlier on the field is replaced: the stored function does not call %s" % (
                        "the earlier validator" if calls_new else "the new function" if calls_prev else "either of them")
            else:
                why = "a validator registered earlier on the field (an earlier decorator, the validator option) is replaced and never run"
        ctx.ob("register.field-keeps-earlier", inn, "store to .validator", okk, why, node=n)
    fv_use = model.method("Field", "validate")
    from .common import called_attr
    uses = any(isinstance(x, ast.Call) and called_attr(fv_use, x) == "validator" for x in ast.walk(fv_use.node))
    ctx.ob("register.field-validator-called", fv_use, "self.validator(cfg, value)", uses,
           "the custom validator is part of the validation chain" if uses else "Field.validate never calls the custom validator")
