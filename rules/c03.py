"""C03 -- secrets are stored only encrypted and decrypt with the configuration's key file."""
from __future__ import annotations

import ast

from engine.defuse import value_sources
from engine.flow import dominating_guards, expand_aliases, falls_through, reachable_from_entry, returns_of
from .links import check_links

META = {
    "explanation": (
        "Decides where plaintext and key files can flow: (1) what SecureField.to_basic returns is reached by its "
        "plaintext parameter only through KeyFile.encrypt; (2) the recorded method is concrete: every tuple "
        "_get_provider returns carries a literal 'aes'/'xor', the function cannot fall through, encrypt builds "
        "its SecureValue from that component and to_basic writes the SecureValue's method, not the field's; "
        "(3) key files are constructed only by Config's key accessors, the default path is used only where no "
        "ancestor exists, the getters climb only through self._parent, and the secure field uses only "
        "<cfg it was given>._keyfile; (4) the inherited key file is looked up, never copied into the child's own "
        "slot; (5) sub-configurations are linked to their parent before anything is loaded into them."),
    "decided": ["C03.1 plaintext reaches the tree only through encrypt (TAINT)", "C03.2 recorded method concrete (RETURNS)",
                "C03.3 nearest-ancestor key-file lookup; KeyFile constructed only in Config's accessors",
                "C03.4 inheritance by lookup, not by copy", "C03.5 parent link of sub-configurations", "C03.6 cipher wiring inverts (shared with C08.1-3)"],
    "not_decided": ["that ciphertext hides plaintext; which files are touched at run time"],
}


def taint_reaches(an, fn, expr, node, param, sanitizer, depth=0, seen=None, ast_sanitizer=None):
    """Can the value of parameter *param* reach expr other than through a sanitizer call?
    Returns the offending sub-expression or None."""
    seen = seen if seen is not None else set()
    if depth > 10 or expr is None:
        return None
    g = an.cfg(fn)
    for kind, payload in value_sources(fn, expr, node):
        if kind == "param":
            if payload == param:
                return expr
            continue
        if kind in ("unpack", "iter", "with"):
            sub = payload[0]
            nd = payload[-1] if not isinstance(payload[-1], (int, type(None))) else node
            if isinstance(sub, ast.AST) and id(sub) not in seen:
                seen.add(id(sub))
                r = taint_reaches(an, fn, sub, nd if hasattr(nd, "kind") else node, param, sanitizer, depth + 1, seen, ast_sanitizer)
                if r is not None:
                    return r
            continue
        if kind != "expr" or not isinstance(payload, ast.AST):
            continue
        if id(payload) in seen:
            continue
        seen.add(id(payload))
        if isinstance(payload, ast.Call):
            nodes = g.nodes_for(payload)
            if nodes and sanitizer(an.targets(fn, nodes[0])):
                continue
            if ast_sanitizer is not None and ast_sanitizer(payload):
                continue
        for child in ast.iter_child_nodes(payload):
            if isinstance(child, ast.keyword):
                child = child.value
            if not isinstance(child, ast.expr):
                continue
            for nm in ([child] if isinstance(child, ast.Name) else [x for x in ast.walk(child) if isinstance(x, ast.Name)]):
                if isinstance(nm.ctx, ast.Load):
                    # respect sanitizers nested below
                    inner_call = None
                    p = getattr(nm, "_parent", None)
                    while p is not None and p is not payload:
                        if isinstance(p, ast.Call):
                            nn = g.nodes_for(p)
                            if (nn and sanitizer(an.targets(fn, nn[0]))) or (ast_sanitizer is not None and ast_sanitizer(p)):
                                inner_call = p
                                break
                        p = getattr(p, "_parent", None)
                    if inner_call is not None:
                        continue
                    from engine.defuse import reaching_defs
                    at = reaching_defs(fn).node_of(nm) or node
                    r = taint_reaches(an, fn, nm, at, param, sanitizer, depth + 1, seen, ast_sanitizer)
                    if r is not None:
                        return payload
    return None



def _is_none_test(e, want_none):
    """`X is None` (want_none) / `X is not None`: returns X"""
    if isinstance(e, ast.Compare) and len(e.ops) == 1 and isinstance(e.comparators[0], ast.Constant) and e.comparators[0].value is None:
        if isinstance(e.ops[0], ast.Is if want_none else ast.IsNot):
            return e.left
    if want_none and isinstance(e, ast.UnaryOp) and isinstance(e.op, ast.Not):
        return e.operand
    if not want_none and isinstance(e, (ast.Attribute, ast.Name)):
        return e
    return None


def check_iterative_owner(ctx, an, f, g, reach, pname):
    """The iterative spelling of the nearest-ancestor lookup: a loop in which a walker that starts at this configuration is
    moved on by `walker = walker._parent`,

        owner = self                                            node = self
        while owner has no key file and owner has a parent:     while node:
            owner = owner._parent                                   if node has a key file: return its key file
                                                                    node = node._parent
                                                                return the default

    What is asked of it, whatever the loop looks like, is read off the conditions known at the step and at the uses of the
    default: the step runs only when the walker has no key file and (either there or as the loop condition) has a parent / is
    not None; the default is used only when the walk ended without finding a key file.  Returns False when the accessor has
    no such loop (the recursive spelling is checked by the caller)."""
    from engine.flow import guard_atoms
    loops = []
    for w in ast.walk(f.node):
        if not isinstance(w, ast.While):
            continue
        for st in ast.walk(w):
            if isinstance(st, ast.Assign) and len(st.targets) == 1 and isinstance(st.targets[0], ast.Name) and isinstance(st.value, ast.Attribute) \
                    and st.value.attr == "_parent" and isinstance(st.value.value, ast.Name) and st.value.value.id == st.targets[0].id:
                loops.append((w, st.targets[0].id, st))
    if not loops:
        return False
    loops.sort(key=lambda l: sum(1 for _ in ast.walk(l[0])))       # the innermost loop around the step
    w, var, step = loops[0]
    sn = [n for n in g.nodes if n.kind == "assign" and n.ast is step]
    step_node = sn[0] if sn else None

    def walker_attr(e, names):
        return isinstance(e, ast.Attribute) and isinstance(e.value, ast.Name) and e.value.id == var and any(nm in e.attr for nm in names)
    own_none = has_parent = False
    extra = []
    atoms = guard_atoms(an, f, step_node) if step_node is not None else []
    loop_tests = {id(x) for x in ast.walk(w.test)}
    for e, truth, t in atoms:
        falsy = _is_none_test(e, True) if truth else (_is_none_test(e, False) if not truth else None)
        truthy = _is_none_test(e, False) if truth else (_is_none_test(e, True) if not truth else None)
        if falsy is not None and walker_attr(falsy, ("keyfile",)):
            own_none = True
        elif truthy is not None and (walker_attr(truthy, ("_parent",)) or (isinstance(truthy, ast.Name) and truthy.id == var)):
            has_parent = True
        elif id(e) in loop_tests or (t is not None and t.ast is not None and id(t.ast) in loop_tests):
            extra.append(e)
    # `while node:` form: the walker itself is tested by the loop, stepping onto None ends the walk
    # the climber starts at this configuration
    wn = [n for n in g.nodes if n.ast is w.test or (n.ast is not None and any(x is n.ast for x in ast.walk(w.test)))]
    starts_self = False
    if wn:
        srcs = value_sources(f, ast.Name(id=var, ctx=ast.Load()), wn[0])
        starts_self = any(k == "param" and p == f.self_name for k, p in srcs) and all(
            (k == "param" and p == f.self_name) or (k == "expr" and p is step.value) for k, p in srcs)
    ctx.ob("keyfile.climbs-parent", f, "%s: while ...: %s = %s._parent" % (pname, var, var), has_parent and starts_self and not extra,
           "walks from this configuration towards the root through ._parent" if has_parent and starts_self and not extra else
           "the walk towards the root %s" % ("does not start at this configuration" if not starts_self else
                                             "has an extra stop condition (%s)" % ", ".join(ast.unparse(c) for c in extra) if extra else
                                             "does not test for a parent"), node=wn[0] if wn else None)
    ctx.ob("keyfile.own-before-parent", f, w.test, own_none,
           "the walk stops at the first configuration that names a key file" if own_none else
           "the walk does not stop at a configuration that names its own key file: an ancestor's key wins", node=wn[0] if wn else None)

    def is_owner(e, at):
        if not isinstance(e, ast.Name):
            return False
        srcs = value_sources(f, e, at)
        return bool(srcs) and any(k == "expr" and p is step.value for k, p in srcs) and all(
            (k == "param" and p == f.self_name) or (k == "expr" and p is step.value) for k, p in srcs)

    def is_owner_keyfile(e, at):
        if isinstance(e, ast.Attribute) and "keyfile" in e.attr and not e.attr.endswith("filename"):
            return is_owner(e.value, at)
        if isinstance(e, ast.Name):
            srcs = value_sources(f, e, at)
            return bool(srcs) and all(k == "expr" and isinstance(p, ast.Attribute) and is_owner_keyfile(p, None) for k, p in srcs)
        return False
    for n in g.nodes:
        if n not in reach:
            continue
        uses_default = n.kind in ("call", "return", "assign") and n.ast is not None and any(
            isinstance(x, ast.Attribute) and x.attr == "DEFAULT_CINCOKEY_FILEPATH" for x in ast.walk(n.ast)) and \
            (n.kind != "call" or any(t.kind == "ctor" for t in an.targets(f, n)))
        if not uses_default or n.kind == "assign" and isinstance(n.ast.value, ast.Call):
            continue
        ok = False
        for t, tr in dominating_guards(an, f, n):
            a = _is_none_test(t.ast, True) if tr else _is_none_test(t.ast, False)
            if a is not None and is_owner_keyfile(a, t):
                ok = True
            if a is not None and isinstance(a, ast.Name) and a.id == var and own_none:
                ok = True       # the walker stepped off the root: every configuration on the way had no key file
        ctx.ob("keyfile.default-last", f, n.ast, ok and own_none and has_parent,
               "the default key file is used only when the walk ended at the root without finding a key file" if ok and own_none and has_parent else
               "the default key file can be chosen although this configuration or an ancestor names one", node=n)
    # what is handed out is the key file of the configuration the walk ended at
    for r in g.nodes:
        if r.kind != "return" or r not in reach or r.ast.value is None:
            continue
        v = r.ast.value
        if any(isinstance(x, ast.Attribute) and x.attr == "DEFAULT_CINCOKEY_FILEPATH" for x in ast.walk(v)):
            continue
        base = v.value if isinstance(v, ast.Attribute) and v.attr == "filename" else v
        ok = is_owner_keyfile(base, r)
        ctx.ob("keyfile.result-of-walk", f, v, ok, "returns the key file of the configuration the walk ended at" if ok else
               "returns %s, not the key file found by the walk" % ast.unparse(v), node=r)
    # a default key file created here is kept by the configuration the walk ended at (the root)
    for n in g.nodes:
        if n.kind == "assign" and n in reach and isinstance(n.ast, ast.Assign) and isinstance(n.ast.value, ast.Call) and any(
                t.kind == "ctor" for t in an.targets(f, n) ) :
            tgt = n.ast.targets[0]
            ok = isinstance(tgt, ast.Attribute) and is_owner(tgt.value, n)
            ctx.ob("keyfile.default-kept-at-root", f, n.ast, ok, "the default key file is stored on the root" if ok else
                   "the default key file is not stored on the configuration the walk ended at", node=n)
    return True


def gp_scenarios(an, model, gp):
    """{(method, 'available'|'missing'): True / False / None}: does _get_provider, specialised for the scenario, return
    (the provider class of the expected method, the expected method name)?  None = a leaf the evaluator does not read."""
    from engine.specialize import Spec
    mparam = gp.positional_params[1]
    out = {}
    for m in ("aes", "xor", "best"):
        for avail in (True, False):
            if m == "aes" and not avail:
                continue                      # asking for aes without the library: the provider's constructor refuses
            want = m if m != "best" else ("aes" if avail else "xor")

            def val(x, node, sp):
                """the string a name / constant stands for under the scenario, or None"""
                if isinstance(x, ast.Constant):
                    return x.value
                if isinstance(x, ast.Name):
                    srcs = sp.sources(x, node) if sp.rd is not None else []
                    vals = set()
                    for k, pl in srcs:
                        if k == "param" and pl == mparam:
                            vals.add(m)
                        elif k == "expr" and isinstance(pl, ast.Constant):
                            vals.add(pl.value)
                        else:
                            return None
                    if len(vals) == 1:
                        return vals.pop()
                return None

            def decide(e, node, sp, m=m, avail=avail):
                if isinstance(e, ast.Attribute) and isinstance(e.value, ast.Name) and e.value.id == gp.self_name and "key" in e.attr:
                    return True
                if isinstance(e, ast.Name) and e.id == "AES_AVAILABLE" or isinstance(e, ast.Attribute) and e.attr == "AES_AVAILABLE":
                    return avail
                if isinstance(e, ast.Call) and isinstance(e.func, ast.Name) and e.func.id == "isinstance" and len(e.args) == 2 \
                        and isinstance(e.args[1], ast.Name) and e.args[1].id == "str" and isinstance(val(e.args[0], node, sp), str):
                    return True         # the method name under this scenario is a string
                if isinstance(e, ast.Compare) and len(e.ops) == 1:
                    lv = val(e.left, node, sp)
                    if not isinstance(lv, str):
                        return None
                    r, op = e.comparators[0], e.ops[0]
                    try:
                        cv = model.const_eval(gp.module, r, gp.cls)
                    except (ValueError, KeyError):
                        cv = val(r, node, sp)
                        if cv is None and isinstance(r, ast.Name) and sp.rd is not None:
                            # a local table: providers = {"aes": AesProvider, "xor": XorProvider}
                            ds = sp.sources(r, node)
                            if len(ds) == 1 and ds[0][0] == "expr" and isinstance(ds[0][1], (ast.Dict, ast.Tuple, ast.List, ast.Set)):
                                elts = ds[0][1].keys if isinstance(ds[0][1], ast.Dict) else ds[0][1].elts
                                if elts and all(isinstance(x, ast.Constant) for x in elts):
                                    cv = tuple(x.value for x in elts)
                    if isinstance(cv, str) and isinstance(op, (ast.Eq, ast.NotEq)):
                        return (lv == cv) == isinstance(op, ast.Eq)
                    if isinstance(cv, (tuple, list, set, frozenset, dict)) and isinstance(op, (ast.In, ast.NotIn)):
                        return (lv in cv) == isinstance(op, ast.In)
                return None
            sp = Spec(an, gp, decide)
            rets = sp.normal_returns()
            res = True if rets and not sp.falls_through() else False
            for r in rets:
                v = r.ast.value
                comps = []
                if isinstance(v, ast.Tuple) and len(v.elts) == 2:
                    comps = [(v.elts[0], v.elts[1], r)]
                elif isinstance(v, ast.Name):
                    for k, pl in sp.sources(v, r):
                        if k == "expr" and isinstance(pl, ast.Tuple) and len(pl.elts) == 2:
                            comps.append((pl.elts[0], pl.elts[1], sp.where.get(id(pl)) or r))
                        else:
                            comps = []
                            break
                if not comps:
                    res = None if res is not False else res
                    continue
                for pe, me, at in comps:
                    got = val(me, at, sp)
                    if got is None:
                        res = None if res is not False else res
                        continue
                    if got != want:
                        res = False
                        continue
                    classes = set()
                    for k, pl in sp.sources(pe, at):
                        if k == "expr" and isinstance(pl, ast.Call):
                            f = pl.func
                            if isinstance(f, ast.Name):
                                fs = sp.sources(f, sp.where.get(id(pl)) or at)
                                # (a None left over from `TABLE.get(name)` cannot be what is called)
                                fs = [(k_, p_) for k_, p_ in fs if not (k_ == "expr" and isinstance(p_, ast.Constant) and p_.value is None)]
                                if len(fs) == 1 and fs[0][0] == "expr" and isinstance(fs[0][1], (ast.Name, ast.Attribute)):
                                    f = fs[0][1]
                            classes.add(ast.unparse(f).split(".")[-1].lower())
                        else:
                            classes.add(None)
                    if None in classes or not classes:
                        res = None if res is not False else res
                    elif not all(want in c for c in classes):
                        res = False
            out[(m, "available" if avail else "missing")] = res
    return out


def check_secret_encrypted_now(ctx):
    """C03.1 (shared with C02: an encrypted value re-loads with the configuration's key file only if what is written was
    produced by `cfg._keyfile`'s `encrypt` in this very call): every path of `SecureField.to_basic` that returns a record for a
    non-empty secret passes the plaintext through `KeyFile.encrypt` and returns the record built from that result -- not one
    remembered on the field object (shared by every configuration of the schema, whatever its key file) or from an earlier save."""
    an, model = ctx.an, ctx.model
    encrypt = model.method("KeyFile", "encrypt")
    tb = model.method("SecureField", "to_basic")
    vparam = tb.positional_params[2]
    is_encrypt = lambda tg: bool(tg) and all(t.kind == "fn" and t.fn is encrypt for t in tg)
    rets = returns_of(an, tb)
    ctx.need(bool(rets), "SecureField.to_basic has no return")
    enc_calls = [n for n in an.cfg(tb).nodes if n.kind == "call" and is_encrypt(an.targets(tb, n))]
    ctx.need(bool(enc_calls), "SecureField.to_basic no longer calls KeyFile.encrypt: vanished anchor")
    for r in rets:
        off = taint_reaches(an, tb, r.ast.value, r, vparam, is_encrypt)
        ctx.ob("taint.plaintext", tb, r.ast, off is None,
               "the plaintext reaches this return only through KeyFile.encrypt" if off is None else
               "the plaintext flows into the serialised value without encryption: %s" % ast.unparse(off)[:60], node=r)
    # a non-empty secret is encrypted *now*: specialised for "the value is not empty", everything to_basic can return is the
    # {method, ciphertext} record it builds from this call's encryption result -- not a record remembered from a load or an
    # earlier save (the key file in force may have changed since)
    from engine.specialize import Spec

    def nonempty(e, node):
        if isinstance(e, ast.Name) and e.id == vparam:
            return True
        if isinstance(e, ast.Compare) and len(e.ops) == 1 and isinstance(e.left, ast.Name) and e.left.id == vparam \
                and isinstance(e.comparators[0], ast.Constant) and e.comparators[0].value in (None, ""):
            return isinstance(e.ops[0], (ast.IsNot, ast.NotEq))
        return None
    spn = Spec(an, tb, nonempty)
    for r in spn.normal_returns():
        srcs = spn.sources(r.ast.value, r) if r.ast.value is not None else [("none", None)]
        okd = bool(srcs) and all(k == "expr" and isinstance(pl, ast.Dict) for k, pl in srcs)
        ctx.ob("encrypt.this-invocation", tb, r.ast, okd,
               "what is written for a non-empty secret is the record built from this call's encryption" if okd else
               "SecureField.to_basic can return %s for a non-empty secret: a record that was not produced by encrypting now (remembered "
               "from a load or an earlier save) -- after the key file in force changes, the file is written with stale ciphertext and no "
               "longer loads" % (ast.unparse(r.ast.value)[:50] if r.ast.value is not None else "None"), node=r)
    return tb, vparam, is_encrypt, rets


def check(ctx):
    an, model = ctx.an, ctx.model
    from .c02 import check_container_items_encoded
    check_container_items_encoded(ctx)      # secrets / digests held as items of typed lists and dicts
    KeyFile = model.cls("KeyFile")
    Config = model.cls("Config")
    encrypt = model.method("KeyFile", "encrypt")

    # ---------------------------------------------------------------- C03.1
    tb, vparam, is_encrypt, rets = check_secret_encrypted_now(ctx)
    # non-empty secrets are encrypted: a dict return must carry the ciphertext of the encrypt result
    for r in rets:
        v = r.ast.value
        if isinstance(v, ast.Dict):
            keys = [k.value for k in v.keys if isinstance(k, ast.Constant)]
            okk = set(keys) == {"method", "ciphertext"}
            ctx.ob("shape.secure-basic", tb, v, okk, "on-disk form is {method, ciphertext}" if okk else
                   "on-disk form of a secret has keys %s" % keys, node=r)
            for k, val in zip(v.keys, v.values):
                if isinstance(k, ast.Constant) and k.value == "method":
                    good = isinstance(val, ast.Attribute) and val.attr == "method" and any(
                        kind == "expr" and isinstance(pl, ast.Call) and is_encrypt(an.targets(tb, an.cfg(tb).nodes_for(pl)[0]))
                        for kind, pl in value_sources(tb, val.value, r))
                    ctx.ob("method.recorded-from-result", tb, val, good,
                           "the method written is the one KeyFile.encrypt actually used" if good else
                           "the method written is %s, not the method of the encrypt result ('best' would be stored unresolved)"
                           % ast.unparse(val), node=r)
                if isinstance(k, ast.Constant) and k.value == "ciphertext":
                    cands = [val] + ([pl for k_, pl in value_sources(tb, val, r) if k_ == "expr" and isinstance(pl, ast.AST)] if isinstance(val, ast.Name) else [])
                    good = any(isinstance(x, ast.Attribute) and x.attr == "ciphertext" for c_ in cands for x in ast.walk(c_))
                    ctx.ob("ciphertext.from-result", tb, val, good, "ciphertext of the encrypt result" if good else
                           "the stored ciphertext is not taken from the encrypt result", node=r)

    # ---------------------------------------------------------------- C03.2
    gp = model.method("KeyFile", "_get_provider")
    rets = returns_of(an, gp)
    ok = bool(rets) and not falls_through(an, gp)
    lits = []

    def method_literal(r, e):
        """the concrete method a returned component stands for: a literal, or a local pinned by an equality test that every
        path to the return has passed (`if resolved == "aes": return Aes(...), resolved`), or a local with constant sources"""
        if isinstance(e, ast.Constant):
            return e.value
        if isinstance(e, ast.Name):
            for t, tr in dominating_guards(an, gp, r):
                c = t.ast
                if tr and isinstance(c, ast.Compare) and len(c.ops) == 1 and isinstance(c.ops[0], ast.Eq) and isinstance(c.left, ast.Name) \
                        and c.left.id == e.id and isinstance(c.comparators[0], ast.Constant):
                    return c.comparators[0].value
            srcs = value_sources(gp, e, r)
            vals = {pl.value if k == "expr" and isinstance(pl, ast.Constant) else None for k, pl in srcs}
            if len(vals) == 1 and None not in vals:
                return vals.pop()
        return None
    lit_of = {}
    for r in rets:
        v = r.ast.value
        m_ = method_literal(r, v.elts[1]) if isinstance(v, ast.Tuple) and len(v.elts) == 2 else None
        if m_ in ("aes", "xor"):
            lits.append(m_)
            lit_of[id(r)] = m_
        else:
            ok = False
    # the same question asked per scenario (requested method x AES availability) on the specialised function: reads an if/elif
    # chain that assigns a local and returns once, a dispatch table, an early-return chain alike
    scen = gp_scenarios(an, model, gp)
    scen_ok = all(v is True for v in scen.values())
    scen_bad = sorted(k for k, v in scen.items() if v is False)
    if not ok and scen_ok:
        ok = True
        lits = ["aes", "xor"]
    if scen_bad:
        ctx.ob("method.scenario", gp, "requested %s / AES %s" % scen_bad[0], False,
               "for method=%r with AES %s _get_provider does not return the matching (provider, concrete method)" % scen_bad[0])
    else:
        ctx.ob("method.scenario", gp, "requested method x AES availability", True,
               "%d/%d scenarios return the matching provider and the concrete method name" % (sum(v is True for v in scen.values()), len(scen)))
    ctx.ob("method.concrete", gp, "every returned (provider, method) names a concrete method", ok,
           "returns only %s and cannot fall through" % sorted(set(lits)) if ok else
           "_get_provider can return a non-concrete method (or None): the recorded method may be 'best' or missing")
    # provider class matches the literal
    for r in rets:
        v = r.ast.value
        if isinstance(v, ast.Tuple) and len(v.elts) == 2 and isinstance(v.elts[0], ast.Call) and id(r) in lit_of:
            fexpr = v.elts[0].func
            if isinstance(fexpr, ast.Name):
                srcs_ = value_sources(gp, fexpr, r)
                if len(srcs_) == 1 and srcs_[0][0] == "expr" and isinstance(srcs_[0][1], (ast.Name, ast.Attribute)):
                    fexpr = srcs_[0][1]      # provider_cls = AesProvider
            cls = ast.unparse(fexpr).lower()
            good = str(lit_of[id(r)]) in cls
            ctx.ob("method.matches-provider", gp, v, good, "provider class and recorded method agree" if good else
                   "recorded method %r does not match provider %s" % (lit_of[id(r)], ast.unparse(v.elts[0].func)), node=r)
    g = an.cfg(encrypt)
    for r in returns_of(an, encrypt):
        v = r.ast.value
        good = False
        marg = None
        if isinstance(v, ast.Call):
            marg = v.args[0] if v.args else next((k.value for k in v.keywords if k.arg == "method"), None)
        if marg is not None:
            for kind, payload in value_sources(encrypt, marg, r):
                if kind == "unpack" and payload[1] == 1 and isinstance(payload[0], ast.Call) and \
                        any(c is gp for c in an.callees(encrypt, g.nodes_for(payload[0])[0])):
                    good = True
                else:
                    good = False
                    break
        ctx.ob("method.encrypt-uses-resolved", encrypt, r.ast, good,
               "SecureValue carries the method resolved by _get_provider" if good else
               "KeyFile.encrypt records its own `method` parameter, not the resolved one", node=r)

    # ---------------------------------------------------------------- C03.3
    n_ctor = 0
    for fn in an.fns():
        for n in an.cfg(fn).nodes:
            if n.kind == "call" and any(t.kind == "ctor" and t.cls is KeyFile for t in an.targets(fn, n)):
                n_ctor += 1
                okc = fn.cls is not None and fn.cls.is_subclass_of(Config) and fn.name in ("_keyfile", "_key_filename")
                ctx.ob("keyfile.constructed-by-config", fn, n.ast, okc,
                       "constructed in Config's key accessor" if okc else
                       "%s constructs a KeyFile of its own: the configuration's key file is bypassed" % fn.qualname, node=n)
        for x in ast.walk(fn.node):
            if isinstance(x, ast.Attribute) and x.attr == "DEFAULT_CINCOKEY_FILEPATH" and model.enclosing_function(x) is fn:
                okd = fn.cls is not None and fn.cls.is_subclass_of(Config) and fn.name in ("_keyfile", "_key_filename")
                ctx.ob("keyfile.default-path-only-in-config", fn, x, okd,
                       "default key path referenced by Config's accessor" if okd else
                       "%s refers to the default key path directly" % fn.qualname, node=x)
    ctx.need(n_ctor >= 2, "KeyFile is no longer constructed by Config: vanished anchors")
    for pname in ("_keyfile", "_key_filename"):
        f = model.method("Config", pname)
        g = an.cfg(f)
        reach = reachable_from_entry(an, f)
        if check_iterative_owner(ctx, an, f, g, reach, pname):
            continue
        # the default is used only without a parent and without an own key file
        for n in g.nodes:
            if n not in reach:
                continue
            uses_default = n.kind in ("call", "return", "assign") and n.ast is not None and any(
                isinstance(x, ast.Attribute) and x.attr == "DEFAULT_CINCOKEY_FILEPATH" for x in ast.walk(n.ast)) and \
                (n.kind != "call" or any(t.kind == "ctor" for t in an.targets(f, n)))
            if not uses_default or n.kind == "assign" and isinstance(n.ast.value, ast.Call):
                continue
            dg = [(expand_aliases(f, t.ast, t), tr) for t, tr in dominating_guards(an, f, n)]
            no_parent = any((not tr) and isinstance(e_, ast.Attribute) and e_.attr == "_parent" for e_, tr in dg)
            no_own = any((not tr) and isinstance(e_, ast.Attribute) and "keyfile" in e_.attr for e_, tr in dg)
            ctx.ob("keyfile.default-last", f, n.ast, no_parent and no_own,
                   "the default key file is used only when neither this configuration nor any ancestor names one" if no_parent and no_own else
                   "the default key file can be chosen although %s" % ("an ancestor exists" if not no_parent else "this configuration names its own"), node=n)
        # climbing: every use of the parent goes to the same accessor of self._parent
        climbs = [x for x in ast.walk(f.node) if isinstance(x, ast.Attribute) and x.attr == pname and isinstance(x.ctx, ast.Load)]
        okc = bool(climbs) and all(isinstance(x.value, ast.Attribute) and x.value.attr == "_parent" and isinstance(x.value.value, ast.Name)
                                   and x.value.value.id == f.self_name for x in climbs)
        ctx.ob("keyfile.climbs-parent", f, "%s -> self._parent.%s" % (pname, pname), okc,
               "falls back to the nearest ancestor through self._parent" if okc else
               "the accessor does not climb through self._parent.%s" % pname)
        for x in climbs:
            nn = [n for n in g.nodes if n.kind == "attr" and n.ast is x]
            if nn:
                dg = [(expand_aliases(f, t.ast, t), tr) for t, tr in dominating_guards(an, f, nn[0])]
                own_first = any((not tr) and isinstance(e_, ast.Attribute) and "keyfile" in e_.attr for e_, tr in dg)
                ctx.ob("keyfile.own-before-parent", f, x, own_first,
                       "the parent is consulted only when this configuration has no key file of its own" if own_first else
                       "the parent's key file can win over this configuration's own", node=nn[0])
    sf = model.cls("SecureField")
    for mname in ("to_basic", "to_python"):
        f = sf.methods.get(mname)
        ctx.need(f is not None, "SecureField.%s vanished" % mname)
        cparam = f.positional_params[1]
        uses = [x for x in ast.walk(f.node) if isinstance(x, ast.Attribute) and x.attr in ("_keyfile", "_key_filename")]
        if not uses:
            ctx.ob("keyfile.of-given-config", f, "SecureField.%s" % mname, False,
                   "SecureField.%s no longer obtains its key file from the configuration it was called for" % mname)
        for x in uses:
            okk = isinstance(x.value, ast.Name) and x.value.id == cparam
            if not okk and isinstance(x.value, ast.Name):
                srcs = value_sources(f, x.value, None)        # owner = cfg
                okk = bool(srcs) and all(k == "param" and pl == cparam for k, pl in srcs)
            ctx.ob("keyfile.of-given-config", f, x, okk, "uses the key file of the configuration it was called for" if okk else
                   "uses the key file of %s, not of the configuration being saved/loaded" % ast.unparse(x.value), node=x)

    # ---------------------------------------------------------------- C03.4
    kf = model.method("Config", "_keyfile")
    for x in ast.walk(kf.node):
        if isinstance(x, ast.Assign) and any(isinstance(t, ast.Attribute) and "keyfile" in t.attr for t in x.targets):
            from_parent = any(isinstance(y, ast.Attribute) and y.attr == "_parent" for y in ast.walk(x.value))
            ctx.ob("keyfile.inherit-by-lookup", kf, x, not from_parent,
                   "only an own (default) key file is cached" if not from_parent else
                   "the parent's key file is copied into the child's slot: a later change of the ancestor's key file is not "
                   "seen by the child, and the child then claims that path as its own", node=x)
    kfn = model.method("Config", "_key_filename")
    for x in ast.walk(kfn.node):
        if isinstance(x, ast.Assign) and any(isinstance(t, ast.Attribute) and "keyfile" in t.attr for t in x.targets):
            ctx.ob("keyfile.inherit-by-lookup", kfn, x, False, "the file-name getter stores into the key-file slot", node=x)

    # ---------------------------------------------------------------- C03.5
    check_links(ctx, "link")

    # ---------------------------------------------------------------- C03.6 "loading yields the original plaintext":
    # the cipher wiring decided under C08 (fresh prepended IV split at the same N, same primitives both ways,
    # XOR key stream over the whole value) is a necessary condition here too
    from . import c08
    sub = type(ctx)(ctx.pid, ctx.an, ctx.tier)
    sub._shared_from = "C03"
    if getattr(ctx, "_shared_from", None) != "C08":
        c08.check(sub)
    ctx.obligations.extend(o for o in sub.obligations if o.rule.split(".", 1)[1].split(".")[0] in ("iv", "agree", "xor", "verbatim", "generated-is-written-is-returned"))     # ... and "the same key file" in a new session holds the same bytes

    # ---------------------------------------------------------------- C03.7 a named key file survives the replacement of its owner
    # Loading a document builds a *new* sub-configuration for every nested map and stores it over the old one.  If the old one
    # named its own key file, the secrets below it were written with that key: the new object has to take the key file over
    # before it decodes them (load_tree decrypts while loading).
    from .links import creates_config
    from engine.flow import same_name_value
    sv = model.method("Config", "_set_value")
    gsv = an.cfg(sv)
    created = []
    for n in gsv.nodes:
        if n.kind == "call" and creates_config(an, sv, n):
            par = getattr(n.ast, "_parent", None)
            if isinstance(par, ast.Assign) and len(par.targets) == 1 and isinstance(par.targets[0], ast.Name):
                created.append((n, par.targets[0]))
    ctx.need(bool(created), "Config._set_value no longer builds a sub-configuration for a nested map: vanished anchor")
    for n, var in created:
        def is_created(e, at, n=n):
            """a local name that holds the configuration created at n (possibly under the names of inlined helpers)"""
            if not isinstance(e, ast.Name):
                return False
            srcs = value_sources(sv, e, at)
            return bool(srcs) and all(k == "expr" and pl is n.ast for k, pl in srcs)
        loads_ = [m for m in gsv.nodes if m.kind == "call" and isinstance(m.ast.func, ast.Attribute) and m.ast.func.attr == "load_tree"
                  and is_created(m.ast.func.value, m)]
        takes = []
        for m in gsv.nodes:
            if m.kind == "assign" and isinstance(m.ast, ast.Assign) and any(
                    isinstance(t, ast.Attribute) and t.attr.endswith("__keyfile") and is_created(t.value, m) for t in m.ast.targets):
                v = m.ast.value
                prev_ok = False
                if isinstance(v, ast.Attribute) and v.attr.endswith("__keyfile"):
                    for k, pl in value_sources(sv, v.value, m) if isinstance(v.value, ast.Name) else [("expr", v.value)]:
                        if k == "expr" and isinstance(pl, ast.AST) and any(isinstance(y, ast.Attribute) and y.attr == "_data" for y in ast.walk(pl)):
                            prev_ok = True
                if prev_ok:
                    takes.append(m)
        # ... or through a method of the new configuration that is handed the old one: <created>.<take>(<previous>)
        deep = []
        for m in gsv.nodes:
            if m.kind != "call" or not isinstance(m.ast.func, ast.Attribute) or not is_created(m.ast.func.value, m) or not m.ast.args:
                continue
            a0 = m.ast.args[0]
            from_data = any(k == "expr" and isinstance(pl, ast.AST) and any(isinstance(y, ast.Attribute) and y.attr == "_data" for y in ast.walk(pl))
                            for k, pl in (value_sources(sv, a0, m) if isinstance(a0, ast.Name) else [("expr", a0)]))
            if not from_data:
                continue
            for t in an.targets(sv, m):
                f2 = getattr(t, "fn", None)
                if t.kind != "fn" or f2 is None or f2.cls is None or not f2.cls.is_subclass_of(Config) or len(f2.positional_params) < 2:
                    continue
                pp = f2.positional_params[1]
                copies = any(isinstance(x, ast.Assign) and any(isinstance(tg, ast.Attribute) and tg.attr.endswith("__keyfile") and isinstance(tg.value, ast.Name)
                                                               and tg.value.id == f2.self_name for tg in x.targets)
                             and isinstance(x.value, ast.Attribute) and x.value.attr.endswith("__keyfile") and isinstance(x.value.value, ast.Name)
                             and x.value.value.id == pp for x in ast.walk(f2.node))
                if copies:
                    takes.append(m)
                    # the nested configurations of the old one hand theirs on as well: the method visits previous._data and calls
                    # itself for the configurations it finds there
                    recurses = any(isinstance(x, ast.Call) and isinstance(x.func, ast.Attribute) and x.func.attr == f2.name for x in ast.walk(f2.node)) \
                        and any(isinstance(x, ast.Attribute) and x.attr == "_data" and isinstance(x.value, ast.Name) and x.value.id == pp for x in ast.walk(f2.node))
                    deep.append(recurses)
        before = bool(takes) and all(any(gsv.path(t, lambda x, l=l: x is l, may_raise=lambda x: False, from_successors=True) for t in takes) for l in loads_)
        ctx.ob("keyfile.survives-replacement", sv, n.ast, before and bool(loads_),
               "the new sub-configuration takes over the key file named by the one it replaces before it loads (and decrypts) the nested map" if before and loads_ else
               "a nested map is loaded into a brand-new sub-configuration that forgets the key file its predecessor named: secrets written "
               "with the sub-configuration's own key file are decrypted with an ancestor's key (load fails or yields garbage)", node=n)
        okdeep = bool(deep) and all(deep)
        ctx.ob("keyfile.survives-replacement.deep", sv, n.ast, okdeep,
               "key files named further down (cfg.a.b._key_filename) are handed on level by level: the take-over visits the nested "
               "configurations of the one being replaced" if okdeep else
               "only the key file of the sub-configuration that is replaced directly is carried over: one named two levels down "
               "(cfg.a.b._key_filename = ...) is lost when a document is loaded -- the new `a` starts with a fresh `b`, whose replacement "
               "then has nothing to take over; a.b's secrets are decrypted with the ancestor's key", node=n)
