"""C07 -- key files: used verbatim, created once, rejected if malformed, never retained."""
from __future__ import annotations

import ast

from engine.defuse import value_sources
from engine.flow import deref, dominating_guards, expand_aliases, known_not_none, must_pass, none_test, path_avoiding, reachable_from_entry, returns_of
from .common import CALLS, open_mode

META = {
    "explanation": (
        "Typestate of the key slot of KeyFile over all its methods, by a two-state (clean / holds unvalidated file "
        "content) propagation over the CFG with per-method summaries: file content stored into the slot is "
        "validated (or the slot reset) before any exception can leave; every use of the key in encrypt / decrypt / "
        "_get_provider is dominated by the is-open guard; __exit__ decrements on every path and clears the slot "
        "exactly under counter == 0, __enter__ increments exactly once on every normal path and never before an "
        "escaping raise; in the generator the bytes written, returned and produced by os.urandom(N) are one "
        "definition and N equals the length the validator demands; the only write-open of the key path is in "
        "the generator, which is reachable only from the OSError branch of the read and from generate_key; key "
        "bytes flow unsliced from the read to the slot to the provider constructors to AES(...)/cycle(...); the "
        "class keeps the key in no other attribute and no public method returns it."),
    "decided": ["C07.1 nothing unvalidated is retained (typestate)", "C07.2 use only while open (guards dominate uses)",
                "C07.3 reference counting and release", "C07.4 generated = written = used, length agreement",
                "C07.5 verbatim flow; single writer of the key path", "C07.6 no other holder of the key"],
    "not_decided": ["cross-session behaviour of the file system, permissions, races"],
}


def slot_of(cls):
    """The attribute holding key material: the one compared by len(...) in a raising validator."""
    for f in cls.methods.values():
        if not any(isinstance(x, ast.Raise) for x in ast.walk(f.node)):
            continue
        for x in ast.walk(f.node):
            if isinstance(x, ast.Compare) and isinstance(x.left, ast.Call) and isinstance(x.left.func, ast.Name) \
                    and x.left.func.id == "len" and x.left.args:
                a0 = x.left.args[0]
                if isinstance(a0, ast.Name):
                    a0 = deref(f, a0, None)       # `key = self.__key; ... len(key) == N`
                if isinstance(a0, ast.BoolOp) and isinstance(a0.op, ast.Or) and len(a0.values) == 2 and isinstance(a0.values[1], ast.Constant) \
                        and a0.values[1].value in (b"", "", None):
                    a0 = a0.values[0]             # len(self.__key or b"")
                if isinstance(a0, ast.Attribute) and isinstance(a0.value, ast.Name) and a0.value.id == f.self_name:
                    return a0.attr, f, x
    return None, None, None


def _enclosing_handlers(node):
    h = node
    while h is not None:
        if isinstance(h, ast.ExceptHandler):
            yield h
        h = getattr(h, "_parent", None)


def is_slot(e, fn, slot):
    return isinstance(e, ast.Attribute) and e.attr == slot and isinstance(e.value, ast.Name) and e.value.id == fn.self_name


def slot_polarity(fn, e, at, slot, depth=0):
    """+1 when `e` being true means the key slot holds something, -1 when it means the slot is empty, None otherwise
    (through local flags: `is_open = bool(self.__key)`, `closed = self.__key is None`)"""
    if depth > 5:
        return None
    if is_slot(e, fn, slot):
        return 1
    if isinstance(e, ast.UnaryOp) and isinstance(e.op, ast.Not):
        p = slot_polarity(fn, e.operand, at, slot, depth + 1)
        return -p if p else None
    if isinstance(e, ast.Call) and isinstance(e.func, ast.Name) and e.func.id == "bool" and len(e.args) == 1:
        return slot_polarity(fn, e.args[0], at, slot, depth + 1)
    if isinstance(e, ast.Compare) and len(e.ops) == 1 and isinstance(e.comparators[0], ast.Constant) and e.comparators[0].value is None:
        p = slot_polarity(fn, e.left, at, slot, depth + 1)
        if p == 1:
            return 1 if isinstance(e.ops[0], (ast.IsNot, ast.NotEq)) else -1
        return None
    if isinstance(e, ast.Name):
        srcs = value_sources(fn, e, at)
        if len(srcs) == 1 and srcs[0][0] == "expr" and isinstance(srcs[0][1], ast.AST) and srcs[0][1] is not e:
            return slot_polarity(fn, srcs[0][1], None, slot, depth + 1)
    return None


def slot_store(n, fn, slot):
    """'unvalidated' / 'reset' / 'other' / None for an assign node."""
    if n.kind != "assign" or not isinstance(n.ast, (ast.Assign, ast.AnnAssign)):
        return None
    tgts = n.ast.targets if isinstance(n.ast, ast.Assign) else [n.ast.target]
    if not any(is_slot(t, fn, slot) for t in tgts):
        return None
    v = n.ast.value
    if isinstance(v, ast.Constant) and v.value is None:
        return "reset"
    return "store"


def check(ctx):
    an, model = ctx.an, ctx.model
    KF = model.cls("KeyFile")
    calls = an.summary(CALLS)
    slot, validator, len_cmp = slot_of(KF)
    ctx.need(slot is not None, "KeyFile has no length-validated key slot any more: vanished anchor")
    methods = list(KF.methods.values())

    # ---------------------------------------------------------------- C07.1 typestate
    def reads_file(fn, n, v=None, depth=0):
        v = n.ast.value if v is None else v
        g = an.cfg(fn)
        for kind, payload in value_sources(fn, v, n if depth == 0 else None):
            if kind == "expr" and isinstance(payload, ast.AST):
                for sub in ast.walk(payload):
                    for nn in g.nodes_for(sub):
                        if any(e[0] == "FILE_READ" for e in calls.direct(fn, nn)):
                            return True
                    # a local that holds what was read (content = fp.read(); slot = content.strip())
                    if isinstance(sub, ast.Name) and sub is not v and depth < 4 and reads_file(fn, n, sub, depth + 1):
                        return True
        return False

    summ = {}

    def summary(fn, in_state, stack=()):
        key = (id(fn), in_state)
        if key in summ:
            return summ[key]
        if fn in stack:
            return ({in_state}, {in_state}, [])
        g = an.cfg(fn)
        seen = set()
        # (node, slot state, predecessor, exception types in flight or None)
        todo = [(g.entry, in_state, None, None)]
        exits, raises, witness = set(), set(), []
        while todo:
            n, st, prev, exc_types = todo.pop()
            if (n.id, st, exc_types) in seen:
                continue
            seen.add((n.id, st, exc_types))
            if n is g.exit:
                exits.add(st)
                continue
            if n is g.raise_exit:
                raises.add(st)
                if st == "U":
                    witness.append(prev)
                continue
            if n.kind == "dispatch" and exc_types is not None:
                # typed handler matching: the unmatched edge is feasible only for a type no handler surely catches
                handlers = n.ast.handlers
                hnodes = [s for s, lbl in n.succ if lbl != "unmatched"]
                rest = set(exc_types)
                for h, hn in zip(handlers, hnodes):
                    names = an.handler_types(fn, h)
                    if names is None:
                        todo.append((hn, st, n, None))
                        rest = set()
                        break
                    if any(an.is_sub_exc(t, nm) or an.is_sub_exc(nm, t) for t in rest for nm in names):
                        todo.append((hn, st, n, None))
                    rest = {t for t in rest if not any(an.is_sub_exc(t, nm) for nm in names)}
                if rest:
                    for s, lbl in n.succ:
                        if lbl == "unmatched":
                            todo.append((s, st, n, frozenset(rest)))
                continue
            if n.kind in ("with_exit", "reraise") and exc_types is not None:
                for s, lbl in n.succ:
                    todo.append((s, st, n, exc_types))
                if n.kind == "reraise" and n.exc is not None:
                    todo.append((n.exc, st, n, exc_types))
                continue
            out_norm, out_exc = {st}, {st}
            ss = slot_store(n, fn, slot)
            if ss == "reset":
                out_norm = {"C"}
            elif ss == "store":
                out_norm = {"U"} if reads_file(fn, n) else {"C"}
            callees = [c for c in an.callees(fn, n) if c.cls is KF]
            if callees:
                out_norm, out_exc = set(), set()
                for c in callees:
                    e, r, _ = summary(c, st, stack + (fn,))
                    if c is validator:
                        out_norm |= {"C"} if e else set()
                    else:
                        out_norm |= e
                    out_exc |= r
            for s, lbl in n.succ:
                for o in out_norm:
                    todo.append((s, o, n, None))
            if n.exc is not None and an.node_may_raise(fn, n):
                if n.kind == "raise" and isinstance(n.ast, ast.Raise) and n.ast.exc is None:
                    types = frozenset(["Exception"])
                else:
                    types = frozenset(t for t, o in an.raised_at(fn, n)) or frozenset(["Exception"])
                for o in out_exc:
                    todo.append((n.exc, o, n, types))
        summ[key] = (exits, raises, witness)
        return summ[key]

    for f in methods:
        if f.name.startswith("__") and not f.name.endswith("__"):
            pass
        e, r, wit = summary(f, "C")
        bad = "U" in r
        where = wit[0] if wit else None
        ctx.ob("typestate.no-unvalidated-retained", f, "%s: file content is validated or dropped before any exception leaves" % f.qualname,
               not bad,
               "no path leaves %s by an exception while the slot holds unvalidated file content" % f.qualname if not bad else
               "an exception can leave %s (e.g. after line %s) while the key slot still holds unvalidated file content: the next "
               "`with` finds a key and skips loading, so a malformed key file is used" % (f.qualname, where.lineno if where is not None else "?"))
        bad2 = "U" in e
        ctx.ob("typestate.validated-on-return", f, "%s: the slot never holds unvalidated content on normal return" % f.qualname, not bad2,
               "file content is validated before %s returns" % f.qualname if not bad2 else
               "%s can return normally with unvalidated file content in the key slot" % f.qualname)
    # the validator really rejects every other length
    try:
        N = model.const_eval(validator.module, len_cmp.comparators[0], validator.cls)
    except ValueError:
        N = None
    ok = isinstance(len_cmp.ops[0], (ast.NotEq, ast.Eq)) and isinstance(N, int)
    raises_under = False
    g = an.cfg(validator)
    for n in g.nodes:
        if n.kind == "raise":
            for t, tr in dominating_guards(an, validator, n):
                pass
            raises_under = True
    esc = {t for t, o in an.escapes(validator)}
    ctx.ob("validator.rejects", validator, len_cmp, ok and N == 32 and raises_under and "EncryptionError" in esc,
           "rejects every key whose length is not %s with EncryptionError" % N if ok and N == 32 and "EncryptionError" in esc else
           "the key validator no longer rejects every length other than 32 with an encryption error")

    # ---------------------------------------------------------------- C07.2 guards
    for name in ("encrypt", "decrypt", "_get_provider"):
        f = KF.methods.get(name)
        ctx.need(f is not None, "KeyFile.%s vanished" % name)
        g = an.cfg(f)
        reach = reachable_from_entry(an, f)
        uses = []
        for n in g.nodes:
            if n not in reach or n.kind != "call":
                continue
            argl = list(n.ast.args) + [k.value for k in n.ast.keywords]
            if isinstance(n.ast.func, ast.Name) and n.ast.func.id in ("bool", "len", "isinstance", "type"):
                continue        # a test of the slot is not a use of the key
            def holds_slot(x, f=f, n=n):
                if is_slot(x, f, slot):
                    return True
                if isinstance(x, ast.Name):
                    srcs = value_sources(f, x, n)
                    return bool(srcs) and all(k == "expr" and is_slot(pl, f, slot) for k, pl in srcs)
                return False
            if any(holds_slot(x) for a in argl for x in ast.walk(a)):
                uses.append(n)
            elif any(c.cls is KF and c.name == "_get_provider" for c in an.callees(f, n)):
                uses.append(n)
        ctx.need(bool(uses), "KeyFile.%s no longer uses the key: vanished anchor" % name)
        for u in uses:
            dg = dominating_guards(an, f, u)
            okg = any((tr and slot_polarity(f, t.ast, t, slot) == 1) or ((not tr) and slot_polarity(f, t.ast, t, slot) == -1) for t, tr in dg)
            ctx.ob("guard.key-loaded", f, u.ast, okg,
                   "dominated by the raise-if-no-key guard" if okg else
                   "the key is used without checking that the key file is open (a closed KeyFile would run with None)", node=u)

    # ---------------------------------------------------------------- C07.3 enter / exit
    ent = model.method("KeyFile", "__enter__")
    ext = model.method("KeyFile", "__exit__")
    def step_of(f, n):
        """(attr, op class, value expr) when node n adds / subtracts 1 to an attribute of self: `self.c -= 1`, or
        `self.c = self.c - 1` (also through a local: `left = self.c - 1; self.c = left`)"""
        if n.kind != "assign":
            return None
        st = n.ast
        if isinstance(st, ast.AugAssign) and isinstance(st.op, (ast.Add, ast.Sub)) and isinstance(st.target, ast.Attribute) \
                and isinstance(st.target.value, ast.Name) and st.target.value.id == f.self_name \
                and isinstance(st.value, ast.Constant) and st.value.value == 1:
            return st.target.attr, type(st.op), None
        if isinstance(st, ast.Assign) and len(st.targets) == 1 and isinstance(st.targets[0], ast.Attribute) \
                and isinstance(st.targets[0].value, ast.Name) and st.targets[0].value.id == f.self_name:
            attr = st.targets[0].attr
            srcs = value_sources(f, st.value, n) if isinstance(st.value, ast.Name) else [("expr", st.value)]
            if len(srcs) == 1 and srcs[0][0] == "expr" and isinstance(srcs[0][1], ast.BinOp) and isinstance(srcs[0][1].op, (ast.Add, ast.Sub)):
                b = srcs[0][1]
                if isinstance(b.left, ast.Attribute) and b.left.attr == attr and isinstance(b.left.value, ast.Name) and b.left.value.id == f.self_name \
                        and isinstance(b.right, ast.Constant) and b.right.value == 1:
                    return attr, type(b.op), b
        return None
    counter = None
    new_value_exprs = []
    for n in an.cfg(ext).nodes:
        so = step_of(ext, n)
        if so is not None and so[1] is ast.Sub:
            counter = so[0]
            if so[2] is not None:
                new_value_exprs.append(so[2])
    ctx.need(counter is not None, "KeyFile.__exit__ no longer decrements a counter: vanished anchor")

    def counter_nodes(f, op):
        out_ = set()
        for n in an.cfg(f).nodes:
            so = step_of(f, n)
            if so is not None and so[0] == counter and so[1] is op:
                out_.add(n)
        return out_

    def as_counter(f, e, t):
        """the counter attribute, or a local that holds the value just written to it"""
        e2 = expand_aliases(f, e, t)
        if isinstance(e2, ast.Attribute) and e2.attr == counter:
            return True
        if isinstance(e, ast.Name):
            srcs = value_sources(f, e, t)
            return bool(srcs) and all(k == "expr" and any(pl is b for b in new_value_exprs) for k, pl in srcs)
        return False

    g = an.cfg(ext)
    decs = counter_nodes(ext, ast.Sub)
    def not_positive_edge(a, b, lbl):
        """the outcome of a test that says "the counter is not positive": there is nothing to decrement on that edge"""
        if a.kind != "test" or a.ast is None:
            return False
        e = a.ast
        if as_counter(ext, e, a):
            return lbl is False
        if isinstance(e, ast.Compare) and len(e.ops) == 1 and as_counter(ext, e.left, a) and isinstance(e.comparators[0], ast.Constant):
            c, op = e.comparators[0].value, e.ops[0]
            if (isinstance(op, ast.Gt) and c == 0) or (isinstance(op, ast.GtE) and c == 1) or (isinstance(op, ast.NotEq) and c == 0):
                return lbl is False
            if (isinstance(op, ast.LtE) and c == 0) or (isinstance(op, ast.Lt) and c == 1) or (isinstance(op, ast.Eq) and c == 0):
                return lbl is True
        return False
    p = path_avoiding(an, ext, g.entry, lambda n: n is g.exit, lambda n: n in decs, edge_filter=lambda a, b, lbl: not not_positive_edge(a, b, lbl))
    ctx.ob("exit.decrements", ext, "counter -= 1 on every path", p is None and len(decs) == 1,
           "__exit__ decrements the reference count exactly once" if p is None and len(decs) == 1 else
           "__exit__ does not decrement the reference count exactly once on every path")
    clears = [n for n in g.nodes if slot_store(n, ext, slot) == "reset"]
    okc = False
    from engine.flow import guard_atoms
    for c in clears:
        for e, tr, t in guard_atoms(an, ext, c):
            if isinstance(e, ast.Compare) and len(e.ops) == 1 and as_counter(ext, e.left, t) and isinstance(e.comparators[0], ast.Constant):
                c0, op = e.comparators[0].value, e.ops[0]
                if c0 == 0 and ((tr and isinstance(op, (ast.Eq, ast.LtE))) or ((not tr) and isinstance(op, (ast.NotEq, ast.Gt)))):
                    okc = True
                if c0 == 1 and ((tr and isinstance(op, ast.Lt)) or ((not tr) and isinstance(op, ast.GtE))):
                    okc = True
            if (not tr) and as_counter(ext, e, t):
                okc = True      # `if not self.__refcount:` -- a count is falsy exactly at 0
    # and the clear is reached whenever the counter hits zero: no other exit from that branch
    ctx.ob("exit.clears-at-zero", ext, "slot = None when the counter reaches 0", okc,
           "the outermost __exit__ drops the key material" if okc else
           "__exit__ does not clear the key exactly when the reference count reaches 0")
    if clears:
        for d in decs:
            before = any(g.path(c, lambda n, d=d: n is d, may_raise=lambda n: False, from_successors=True) for c in clears)
            ctx.ob("exit.decrement-before-test", ext, d.ast, not before, "the count is decremented before it is tested" if not before else
                   "the key is cleared before the count is decremented", node=d)
    g = an.cfg(ent)
    incs = counter_nodes(ent, ast.Add)
    p = path_avoiding(an, ent, g.entry, lambda n: n is g.exit, lambda n: n in incs)
    loop = any(g.path(n, lambda x: x is n, may_raise=lambda x: False, from_successors=True) for n in incs)
    ctx.ob("enter.increments-once", ent, "counter += 1 exactly once on every normal path", p is None and len(incs) == 1 and not loop,
           "every successful __enter__ is counted once" if p is None and len(incs) == 1 and not loop else
           "__enter__ does not count itself exactly once on every normal path")
    for i in incs:
        q = g.path(i, lambda n: n is g.raise_exit, may_raise=lambda n: an.node_may_raise(ent, n), from_successors=True)
        ctx.ob("enter.no-count-on-failure", ent, i.ast, q is None,
               "a failing __enter__ leaves the count untouched" if q is None else
               "__enter__ can raise after having counted itself: the key is never released", node=i)
    # the same for every other method that takes a reference (a new `open()` next to the context manager): the count moves only
    # when the key is there -- an exception after the increment, with no decrement on the way out, leaves a reference nobody gives
    # back, so the key survives the last close
    for mname, mf in sorted(KF.methods.items()):
        if mf is ent or mname == "__init__":
            continue
        gm = an.cfg(mf)
        incs_m = counter_nodes(mf, ast.Add)
        decs_m = set(counter_nodes(mf, ast.Sub))
        for i_ in incs_m:
            q_ = gm.path(i_, lambda n: n is gm.raise_exit, may_raise=lambda n: an.node_may_raise(mf, n), stop=lambda n: n in decs_m, from_successors=True)
            ctx.ob("enter.no-count-on-failure", mf, i_.ast, q_ is None,
                   "nothing after the increment can fail (or the reference is given back on the way out)" if q_ is None else
                   "%s counts a reference and can then fail (%s) without giving it back: the count never returns to 0 and the key is retained "
                   "after the outermost close" % (mf.qualname, " -> ".join("%s@%s" % (x.kind, x.lineno) for x in q_[:8])), node=i_)
    rets = returns_of(an, ent)
    okr = bool(rets) and all(isinstance(r.ast.value, ast.Name) and r.ast.value.id == ent.self_name for r in rets)
    ctx.ob("enter.returns-self", ent, "return self", okr, "nested contexts share the one KeyFile object" if okr else
           "__enter__ does not return the KeyFile itself")
    # load only when there is no key; and load on every path without a key
    loads = {n for n in g.nodes if any(c.cls is KF and "load" in c.name for c in an.callees(ent, n))}
    ctx.need(bool(loads), "KeyFile.__enter__ no longer loads the key: vanished anchor")
    def cut_has_key(a, b, lbl):
        if a.kind != "test":
            return True
        pol = slot_polarity(ent, a.ast, a, slot)
        return not ((pol == 1 and lbl is True) or (pol == -1 and lbl is False))
    p = path_avoiding(an, ent, g.entry, lambda n: n is g.exit, lambda n: n in loads, edge_filter=cut_has_key)
    ctx.ob("enter.loads-when-closed", ent, "load the key unless one is already held", p is None,
           "a KeyFile without key material always loads on __enter__" if p is None else
           "__enter__ can succeed without a key being loaded")

    # ---------------------------------------------------------------- C07.4 / C07.5 generator
    writers = []
    for f in methods:
        for n in an.cfg(f).nodes:
            for e in calls.direct(f, n):
                if e[0] == "OPEN" and any(c in e[2] for c in "wax+"):
                    writers.append((f, n))
    ctx.need(bool(writers), "KeyFile never writes a key file: vanished anchor")
    gens = {f for f, _ in writers}
    ctx.ob("single-writer", KF, "functions of KeyFile that open the key path for writing", len(gens) == 1,
           "exactly one function writes the key file: %s" % sorted(f.qualname for f in gens) if len(gens) == 1 else
           "several functions write the key file: %s" % sorted(f.qualname for f in gens))
    gen = sorted(gens, key=lambda f: f.qualname)[0]
    g = an.cfg(gen)
    ur = [n for n in g.nodes if any(e[0] == "URANDOM" for e in calls.direct(gen, n))]
    okg = len(ur) == 1
    n_gen = None
    if okg:
        a = ur[0].ast.args[0] if ur[0].ast.args else None
        try:
            n_gen = model.const_eval(gen.module, a, gen.cls) if a is not None else None
        except ValueError:
            n_gen = None
        for n in g.nodes:
            if any(e[0] == "FILE_WRITE" for e in calls.direct(gen, n)):
                srcs = value_sources(gen, n.ast.args[0], n) if n.ast.args else []
                if not srcs or not all(k == "expr" and pl is ur[0].ast for k, pl in srcs):
                    okg = False
        for r in returns_of(an, gen):
            srcs = value_sources(gen, r.ast.value, r) if r.ast.value is not None else []
            if not srcs or not all(k == "expr" and pl is ur[0].ast for k, pl in srcs):
                okg = False
    ctx.ob("generated-is-written-is-returned", gen, "os.urandom(N) is the value written and the value returned", okg,
           "one os.urandom(%s) definition is written to the file and handed back" % n_gen if okg else
           "the key written to the file and the key returned/used are not the same os.urandom(...) value")
    ctx.ob("generated-length", gen, "generated length == validated length", n_gen == N and N is not None,
           "generator and validator agree on %s bytes" % N if n_gen == N else
           "the generator produces %s bytes but the validator demands %s" % (n_gen, N))
    # who may call the generator
    for cf, cn in an.callers(gen):
        if cf.cls is not KF:
            ctx.ob("generator.callers", cf, cn.ast, False, "the key generator is called from outside KeyFile", node=cn)
            continue
        if not (cf.name.startswith("__") and not cf.name.endswith("__")) and not cf.name.startswith("_"):
            ctx.ob("generator.callers", cf, cn.ast, True, "public explicit (re)generation", node=cn, nontrivial=False)
            continue
        # must sit in an `except OSError` handler of a try that opens the key path for reading
        h = cn.ast
        handler = None
        while h is not None and h is not cf.node:
            if isinstance(h, ast.ExceptHandler):
                handler = h
                break
            h = getattr(h, "_parent", None)
        okh = False
        if handler is not None:
            names = an.handler_types(cf, handler) or []
            tr = getattr(handler, "_parent", None)
            reads = isinstance(tr, ast.Try) and any(
                isinstance(x, ast.Call) and isinstance(x.func, ast.Name) and x.func.id == "open" and "r" in open_mode(x)
                for st in tr.body for x in ast.walk(st))
            okh = bool(names) and all(an.is_sub_exc(nm, "OSError") for nm in names) and reads
        if handler is None:
            # or behind `if content is None:` where the only way for content to be None is that handler
            for t, tr in dominating_guards(an, cf, cn):
                a = none_test(t.ast, True, strict=True) if tr else none_test(t.ast, False, strict=True)
                if not isinstance(a, ast.Name):
                    continue
                nones, others_ok = [], True
                for k, pl in value_sources(cf, a, t):
                    if k == "expr" and isinstance(pl, ast.Constant) and pl.value is None:
                        nones.append(pl)
                    elif not (k == "expr" and isinstance(pl, ast.Call) and isinstance(pl.func, ast.Attribute) and pl.func.attr == "read"):
                        others_ok = False
                def in_oserror_handler(c):
                    h2 = c
                    while h2 is not None and h2 is not cf.node:
                        if isinstance(h2, ast.ExceptHandler):
                            nm2 = an.handler_types(cf, h2) or []
                            tr2 = getattr(h2, "_parent", None)
                            rd2 = isinstance(tr2, ast.Try) and any(
                                isinstance(x, ast.Call) and isinstance(x.func, ast.Name) and x.func.id == "open" and "r" in open_mode(x)
                                for st in tr2.body for x in ast.walk(st))
                            return bool(nm2) and all(an.is_sub_exc(n2, "OSError") for n2 in nm2) and rd2
                        h2 = getattr(h2, "_parent", None)
                    return False
                if nones and others_ok and all(in_oserror_handler(c) for c in nones):
                    okh = True
        # ... and "reading failed" has to mean "there is no such file": a key file that exists but cannot be read (permissions, an
        # I/O error) raises OSError as well, and generating then overwrites it.  Either the handler catches FileNotFoundError only,
        # or the generator call is guarded by a test that the path does not exist
        if okh:
            from engine.flow import guard_atoms
            missing = False
            if handler is not None:
                names_ = an.handler_types(cf, handler) or []
                if names_ and all(nm == "FileNotFoundError" for nm in names_):
                    missing = True
            def absent_at(node_):
                return any(isinstance(e_, ast.Call) and isinstance(e_.func, ast.Attribute) and e_.func.attr in ("exists", "isfile", "lexists", "is_file")
                           and truth_ is False for e_, truth_, _t in guard_atoms(an, cf, node_))
            if absent_at(cn):
                missing = True
            if not missing and handler is None:
                # behind `if content is None:`: every place that makes content None sits behind the "does not exist" test
                gcf = an.cfg(cf)
                none_nodes = []
                for t, tr in dominating_guards(an, cf, cn):
                    a = none_test(t.ast, True, strict=True) if tr else none_test(t.ast, False, strict=True)
                    if isinstance(a, ast.Name):
                        for k, pl in value_sources(cf, a, t):
                            if k == "expr" and isinstance(pl, ast.Constant) and pl.value is None:
                                none_nodes += [m for m in gcf.nodes if m.kind == "assign" and getattr(m.ast, "value", None) is pl]
                if none_nodes and all(absent_at(m) or all(nm == "FileNotFoundError" for nm in (an.handler_types(cf, hh) or ["?"]))
                                      for m in none_nodes for hh in [next((h2 for h2 in _enclosing_handlers(m.ast)), None)] if hh is not None or absent_at(m)):
                    missing = all(absent_at(m) or any(True for _ in _enclosing_handlers(m.ast) if all(nm == "FileNotFoundError" for nm in (an.handler_types(cf, _) or ["?"])))
                                  for m in none_nodes)
            ctx.ob("generator.only-when-missing", cf, cn.ast, missing,
                   "a key is generated only when the key file does not exist" if missing else
                   "a key is generated whenever opening the key file fails with any OSError: an existing 32-byte key file that cannot be read "
                   "(permissions, I/O error) is overwritten with a new random key", node=cn)
        ctx.ob("generator.callers", cf, cn.ast, okh,
               "a key is generated only when reading the key file failed with OSError (file missing)" if okh else
               "a new key can be generated (overwriting the key file) although the existing file was readable", node=cn)
        if okh:
            # and what is generated is what is kept
            par = getattr(cn.ast, "_parent", None)
            kept = isinstance(par, ast.Assign) and any(is_slot(t, cf, slot) for t in par.targets)
            ctx.ob("generator.result-kept", cf, cn.ast, kept, "the generated key is the key used for this session" if kept else
                   "the generated key is not stored in the key slot", node=cn)
    # verbatim: read -> slot
    for f in methods:
        for n in an.cfg(f).nodes:
            if slot_store(n, f, slot) == "store" and reads_file(f, n):
                v = n.ast.value
                srcs = value_sources(f, v, n)
                if isinstance(v, ast.Name) and known_not_none(an, f, v, n):
                    srcs = [(k, pl) for k, pl in srcs if not (k == "expr" and isinstance(pl, ast.Constant) and pl.value is None)]
                direct = bool(srcs) and all(k == "expr" and isinstance(pl, ast.Call) and isinstance(pl.func, ast.Attribute) and pl.func.attr == "read"
                                            and not pl.args for k, pl in srcs)
                ctx.ob("verbatim.read-to-slot", f, n.ast, direct, "the slot receives exactly fp.read()" if direct else
                       "file content is transformed (sliced / stripped / partially read) before it is kept as the key", node=n)
                # same path as the one the generator writes: both derive from self.filename
    # the key lives in the slot only: nothing built from it is kept on the KeyFile beyond the session
    for f in methods:
        for n in an.cfg(f).nodes:
            if n.kind != "assign" or not isinstance(n.ast, (ast.Assign, ast.AnnAssign)) or n.ast.value is None:
                continue
            tgts = n.ast.targets if isinstance(n.ast, ast.Assign) else [n.ast.target]
            keeps = []
            for t in tgts:
                base = t
                while isinstance(base, ast.Subscript):
                    base = base.value
                if isinstance(base, ast.Attribute) and isinstance(base.value, ast.Name) and base.value.id == f.self_name and base.attr != slot:
                    keeps.append(t)
            if not keeps:
                continue
            carries = any(is_slot(x, f, slot) for x in ast.walk(n.ast.value)
                          if not (isinstance(getattr(x, "_parent", None), ast.Call) and isinstance(x._parent.func, ast.Name) and x._parent.func.id == "len"))
            ctx.ob("slot.no-copies", f, n.ast, not carries,
                   "stores nothing derived from the key" if not carries else
                   "an object built from the key is kept in %s: __exit__ clears the slot but this copy survives the session (and a key "
                   "changed on disk is not picked up by the next one)" % ast.unparse(keeps[0]), node=n, nontrivial=carries)
    # slot -> provider constructors -> primitives
    gp = model.method("KeyFile", "_get_provider")
    nprov = 0
    for n in an.cfg(gp).nodes:
        if n.kind == "call" and any(t.kind == "ctor" for t in an.targets(gp, n)) and n.ast.args:
            tg = [t for t in an.targets(gp, n) if t.kind == "ctor" and t.cls.is_subclass_of(model.cls("IEncryptionProvider"))]
            if not tg:
                continue
            nprov += 1
            a0_ = n.ast.args[0]
            okp = is_slot(a0_, gp, slot) or (isinstance(a0_, ast.Name) and bool(value_sources(gp, a0_, n)) and all(
                k == "expr" and is_slot(pl, gp, slot) for k, pl in value_sources(gp, a0_, n)))
            ctx.ob("verbatim.slot-to-provider", gp, n.ast, okp, "provider receives the key slot itself" if okp else
                   "the provider is constructed with %s instead of the loaded key" % ast.unparse(n.ast.args[0]), node=n)
    if nprov < 2:
        # constructions the call resolver cannot name (class picked at run time): still must receive the slot
        for n in an.cfg(gp).nodes:
            if n.kind == "call" and n.ast.args and any(is_slot(a, gp, slot) for a in n.ast.args):
                nprov += 1
    ctx.need(nprov >= 1, "provider constructions not found in _get_provider")
    for c in model.cls("IEncryptionProvider").subclasses(strict=True):
        init = c.methods.get("__init__")
        if init is None:
            continue
        kparam = init.positional_params[1] if len(init.positional_params) > 1 else None
        pslot = None
        for x in ast.walk(init.node):
            if isinstance(x, ast.Assign) and isinstance(x.value, ast.Name) and x.value.id == kparam:
                for t in x.targets:
                    if isinstance(t, ast.Attribute):
                        pslot = t.attr
        ctx.ob("verbatim.provider-keeps-key", init, "%s stores its key parameter unmodified" % c.name, pslot is not None,
               "self.%s = key" % pslot if pslot else "%s.__init__ does not store the key parameter as given" % c.name)
        if pslot is None:
            continue
        for f in c.methods.values():
            if f is init:
                continue
            for x in ast.walk(f.node):
                if isinstance(x, ast.Attribute) and x.attr == pslot and isinstance(x.value, ast.Name) and x.value.id == f.self_name:
                    par = getattr(x, "_parent", None)
                    okk = isinstance(par, ast.Call) and x in par.args and not isinstance(par.func, ast.Subscript)
                    if not okk and isinstance(par, ast.Assign) and par.value is x and len(par.targets) == 1 and isinstance(par.targets[0], ast.Name):
                        # a plain local copy (the parameter of an inlined helper): every read of the copy is handed on whole
                        nm_ = par.targets[0].id
                        reads = [y for y in ast.walk(f.node) if isinstance(y, ast.Name) and y.id == nm_ and isinstance(y.ctx, ast.Load)]
                        stores_ = [y for y in ast.walk(f.node) if isinstance(y, ast.Name) and y.id == nm_ and isinstance(y.ctx, ast.Store)]
                        if reads and len(stores_) == 1 and all(isinstance(getattr(y, "_parent", None), ast.Call) and y in y._parent.args
                                                               and not isinstance(y._parent.func, ast.Subscript) for y in reads):
                            okk = True
                            par = reads[0]._parent
                    ctx.ob("verbatim.provider-uses-whole-key", f, par if par is not None else x, okk,
                           "the whole key is handed to %s" % (ast.unparse(par.func) if okk else "?") if okk else
                           "%s uses %s: the key is sliced or transformed before use" % (f.qualname, ast.unparse(par)[:50] if par is not None else "?"), node=x)
        for x in ast.walk(c.node):
            if isinstance(x, ast.Assign) and any(isinstance(t, ast.Attribute) and t.attr == pslot for t in x.targets) \
                    and model.enclosing_function(x) is not init:
                ctx.ob("verbatim.provider-keeps-key", model.enclosing_function(x), x, False, "the provider's key is re-assigned after construction", node=x)
        # nothing computed from the key outlives the provider object: a store to the *class* (AesProvider._algorithm = AES(key),
        # type(self).x = ..., cls.x = ...) from a method makes the first key used in a process the key of every later provider
        for f in c.methods.values():
            for x in ast.walk(f.node):
                if isinstance(x, (ast.Assign, ast.AugAssign, ast.AnnAssign)):
                    for t in (x.targets if isinstance(x, ast.Assign) else [x.target]):
                        if isinstance(t, ast.Attribute):
                            recv = t.value
                            on_class = (isinstance(recv, ast.Name) and recv.id in model.classes and c.is_subclass_of(model.classes[recv.id])) or \
                                (isinstance(recv, ast.Call) and isinstance(recv.func, ast.Name) and recv.func.id == "type") or \
                                (isinstance(recv, ast.Attribute) and recv.attr == "__class__")
                            if on_class:
                                ctx.ob("verbatim.provider-no-class-state", f, x, False,
                                       "%s stores %s on the class: state built from one provider's key is shared by all providers of the process "
                                       "(a second key file's secrets are written with the first one's key)" % (f.qualname, ast.unparse(t)), node=x)

    # ---------------------------------------------------------------- C07.6 no other holder
    # the key slot and the counter are per-object state: a class-level binding of either name (a shared default, a descriptor
    # that keeps the state somewhere else) makes several KeyFile objects one session
    for st_ in KF.node.body:
        if isinstance(st_, (ast.Assign, ast.AnnAssign)) and getattr(st_, "value", None) is not None:
            for t_ in (st_.targets if isinstance(st_, ast.Assign) else [st_.target]):
                if isinstance(t_, ast.Name):
                    mangled = "_%s%s" % (KF.name.lstrip("_"), t_.id) if t_.id.startswith("__") and not t_.id.endswith("__") else t_.id
                    if mangled in (slot, counter) or t_.id in (slot, counter):
                        okc_ = isinstance(st_.value, ast.Constant)
                        ctx.ob("census.instance-state", KF, st_, okc_,
                               "a constant class-level default of the per-object state" if okc_ else
                               "%s is bound at class level to %s: the key / the reference count is no longer the state of one KeyFile object "
                               "(objects for one path share or reset each other's session)" % (t_.id, ast.unparse(st_.value)[:40]), node=st_)
    allowed = {"filename", slot, counter}
    for f in methods:
        for x in ast.walk(f.node):
            if isinstance(x, (ast.Assign, ast.AnnAssign, ast.AugAssign)):
                tgts = x.targets if isinstance(x, ast.Assign) else [x.target]
                for t in tgts:
                    if isinstance(t, ast.Attribute) and isinstance(t.value, ast.Name) and t.value.id == f.self_name:
                        oka = t.attr in allowed
                        if not oka and isinstance(x, (ast.Assign, ast.AnnAssign)) and x.value is not None:
                            # an option kept from the caller (self.mode = mode, self.create = bool(create)) or a constant cannot
                            # hold key material: only what is computed from the key slot, from file content or by a call may
                            pnames = {a.arg for a in f.params}

                            def harmless(v, depth=0):
                                if isinstance(v, ast.Constant):
                                    return True
                                if isinstance(v, ast.Name):
                                    if v.id in pnames and v.id != f.self_name:
                                        srcs_ = value_sources(f, v, None)
                                        return all(k_ == "param" or (k_ == "expr" and isinstance(p_, ast.AST) and depth < 3 and harmless(p_, depth + 1)) for k_, p_ in srcs_)
                                    return False
                                if isinstance(v, ast.Call) and isinstance(v.func, ast.Name) and v.func.id in ("bool", "int", "str", "oct") and len(v.args) == 1:
                                    return harmless(v.args[0], depth + 1)
                                if isinstance(v, ast.IfExp):
                                    return harmless(v.body, depth + 1) and harmless(v.orelse, depth + 1)
                                if isinstance(v, ast.BoolOp):
                                    return all(harmless(y, depth + 1) for y in v.values)
                                return False
                            if f.name == "__init__" and harmless(x.value) and not any(is_slot(y, f, slot) for y in ast.walk(x.value)):
                                oka = True
                        ctx.ob("census.attributes", f, t, oka, "attribute of the census {filename, key slot, counter}, or an option kept from the constructor's caller" if oka else
                               "KeyFile stores into a new attribute %r: the key may be retained there after the outermost exit" % t.attr,
                               node=x, nontrivial=not oka)
        # no non-private method returns key material
        private = f.name.startswith("__") and not f.name.endswith("__")
        if private:
            continue
        for r in returns_of(an, f):
            if r.ast.value is None:
                continue
            def exposed(expr):
                """slot occurrences in expr that are not arguments of a provider constructor / len()"""
                out = []
                for x in ast.walk(expr):
                    if is_slot(x, f, slot):
                        par = getattr(x, "_parent", None)
                        if isinstance(par, ast.Call) and x in par.args:
                            nn = an.cfg(f).nodes_for(par)
                            tg = an.targets(f, nn[0]) if nn else []
                            if tg and all((t.kind == "ctor" and t.cls.is_subclass_of(model.cls("IEncryptionProvider")))
                                          or (t.kind == "ext" and t.name == "builtins.len") for t in tg):
                                continue
                        out.append(x)
                return out
            leak = bool(exposed(r.ast.value))
            for kind, payload in value_sources(f, r.ast.value, r):
                if kind == "expr" and isinstance(payload, ast.AST):
                    if exposed(payload):
                        leak = True
                    if isinstance(payload, ast.Call) and any(c in gens for c in an.callees(f, an.cfg(f).nodes_for(payload)[0])):
                        leak = True
            ctx.ob("census.no-key-returned", f, r.ast, not leak, "does not hand out key material" if not leak else
                   "%s returns key material to its caller" % f.qualname, node=r, nontrivial=leak)
