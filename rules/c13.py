"""C13 -- configurations of one schema share no state and never alter the schema."""
from __future__ import annotations

import ast

from engine.defuse import value_sources
from engine.flow import dominating_guards
from engine.effects import EventSpec, ap_str
from engine.flow import reachable_from_entry
from .common import MUTATING_METHODS, STATE, container_mutations
from .links import creates_config

META = {
    "explanation": (
        "Sharing needs a shared mutable object. Decided: (1) fields are stateless at run time -- the only "
        "functions that store into (or mutate a container held by) a field are constructors and the "
        "schema-building protocol; no method that receives a configuration writes its field, directly or "
        "through anything it calls; (2) the per-configuration default of a typed list/dict field reaches "
        "_set_default_value only as a constructor result (a new proxy / list() / dict()), the raw declared "
        "default only where it is not a list/dict (None); nested schemas and config types build a new "
        "configuration per parent; (3) the schema's field table is mutated only by Schema._add_field (and "
        "created in its constructor), never through an alias -- Config.to_tree must copy before merging "
        "dynamic fields --, dynamic fields go to the configuration's own table, and run-time code never calls "
        "the field-creating accessors of Schema; (4) schema-level registries (_validators, validator, "
        "_env_prefix, _schema, _dynamic) are written only by constructors and the builder API."),
    "decided": ["C13.1 fields stateless at run time (WRITERS)", "C13.2 per-config defaults are fresh (FLOW)",
                "C13.3 one owner of the schema's field table; no creating accessor from run-time code", "C13.4 schema-level state written only by the builder API"],
    "not_decided": ["sharing inside mutable defaults of *untyped* fields (Field(default=[]) is shared -- outside 'typed fields')"],
}


def fieldstate_events(an, fn, node):
    """mutation of a container held in an attribute of the receiver: self.<attr>.append(...) /
    self.<attr>[k] = v / del self.<attr>[k]"""
    k = node.kind
    if k == "call":
        f = node.ast.func
        if isinstance(f, ast.Attribute) and f.attr in MUTATING_METHODS and isinstance(f.value, ast.Attribute):
            tg = an.targets(fn, node)
            # only real container mutations (builtin methods), not package methods that happen to share a name
            if any(t.kind in ("builtin_method", "ext") for t in tg):
                yield ("W_ATTR_MUT", an.access_path(fn, f.value.value, node), f.value.attr)
    elif k == "assign":
        st = node.ast
        tgts = st.targets if isinstance(st, ast.Assign) else [st.target]
        for t in tgts:
            if isinstance(t, ast.Subscript) and isinstance(t.value, ast.Attribute):
                yield ("W_ATTR_MUT", an.access_path(fn, t.value.value, node), t.value.attr)
            if isinstance(st, ast.AugAssign) and isinstance(t, ast.Attribute):
                yield ("W_ATTR_MUT", an.access_path(fn, t.value, node), t.attr)
    elif k == "delete":
        for t in node.ast.targets:
            if isinstance(t, ast.Subscript) and isinstance(t.value, ast.Attribute):
                yield ("W_ATTR_MUT", an.access_path(fn, t.value.value, node), t.value.attr)


FIELDSTATE = EventSpec("fieldstate", fieldstate_events)

BUILDER_NAMES = {"__init__", "__setkey__", "__setattr__", "__getattr__", "__getitem__", "__setitem__", "_add_field"}
CREATING = {"__getattr__", "__getitem__", "__setitem__", "_add_field", "__setattr__"}


_BUILDER_CACHE = {}


def is_builder(an, fn, _stack=()) -> bool:
    """constructor / schema-construction protocol / decorator helpers, and private helpers that are
    reachable only from those"""
    key = (id(an), id(fn))
    if key in _BUILDER_CACHE:
        return _BUILDER_CACHE[key]
    r = _is_builder_by_name(an, fn)
    if not r and fn not in _stack and fn.name.startswith("_") and not (fn.name.startswith("__") and fn.name.endswith("__")):
        callers = an.callers(fn)
        if callers and all(is_builder(an, cf, _stack + (fn,)) for cf, _ in callers):
            r = True
    _BUILDER_CACHE[key] = r
    return r


def _is_builder_by_name(an, fn) -> bool:
    model = an.model
    Base = model.cls("BaseField")
    top = fn
    while top.parent is not None:
        top = top.parent
    if top.cls is not None and top.cls.is_subclass_of(Base) and top.name in BUILDER_NAMES:
        return True
    if top.cls is not None and top.cls.name == "Schema" and top.name in ("validator", "instance_method", "make_type"):
        return True
    if top.cls is None and top.name in ("validator", "instance_method", "make_type"):
        return True
    # a registering decorator of the same shape as those: a module-level factory that returns its nested function, which takes
    # the decorated function as its only parameter and hands it back unchanged (applied while the schema is being defined)
    if top.cls is None and fn.parent is top and len(fn.positional_params) == 1 and isinstance(fn.node, ast.FunctionDef):
        p0 = fn.positional_params[0]
        rets_inner = [x for x in ast.walk(fn.node) if isinstance(x, ast.Return)]
        rets_outer = [x for x in top.node.body if isinstance(x, ast.Return)]
        if rets_inner and all(isinstance(x.value, ast.Name) and x.value.id == p0 for x in rets_inner) \
                and rets_outer and all(isinstance(x.value, ast.Name) and x.value.id == fn.name for x in rets_outer):
            return True
    if top.cls is not None and top.cls.is_subclass_of(Base) and top.name.startswith("_create_helper"):
        return True
    # the flattened form of such a factory (engine/normalize.py writes `factory(a)(b)` as `_flat_factory(a, b)`)
    if top is fn and fn.cls is None and fn.name.startswith("_flat_"):
        orig = fn.module.functions.get(fn.name[len("_flat_"):])
        if orig is not None and orig.nested and any(_is_builder_by_name(an, nf) for nf in orig.nested):
            return True
    # a class-level registration API (`@classmethod def register_x(cls, ...)`, like ConfigFormat.register) that nothing in the
    # package calls: it is run by the application while it sets the library up, not by a configuration
    if top is fn and fn.cls is not None and isinstance(fn.node, ast.FunctionDef) and any(
            isinstance(d, ast.Name) and d.id == "classmethod" for d in fn.node.decorator_list) and not an.callers(fn):
        return True
    return False


def takes_config(an, fn) -> bool:
    Config = an.model.cls("Config")
    if isinstance(fn.node, ast.Lambda):
        return False
    for a in fn.params:
        if a.annotation is not None:
            t = an.types.ann(fn.module, a.annotation)
            if t != "ANY" and any(isinstance(x, str) and x in an.model.classes and an.model.classes[x].is_subclass_of(Config) for x in t):
                return True
    return False


def check_fresh_defaults(ctx):
    an, model = ctx.an, ctx.model
    Base = model.cls("BaseField")
    # ---------------------------------------------------------------- C13.2
    sdv = model.method("Config", "_set_default_value")
    nsites = 0
    for fn in an.fns():
        if fn.name != "__setdefault__" or fn.cls is None or not fn.cls.is_subclass_of(Base):
            continue
        g = an.cfg(fn)
        ft = an.ft(fn)
        for n in g.nodes:
            if n.kind != "call" or sdv not in an.callees(fn, n) or len(n.ast.args) < 2:
                continue
            nsites += 1
            arg = n.ast.args[1]
            typed_container = fn.cls.name in ("ListField", "DictField") or any(
                k.name in ("ListField", "DictField") for k in fn.cls.package_mro())
            if creates_config(an, fn, an.cfg(fn).nodes_for(arg)[0]) if isinstance(arg, ast.Call) and an.cfg(fn).nodes_for(arg) else False:
                ctx.ob("default.fresh", fn, n.ast, True, "a new configuration is built for each parent", node=n)
                continue
            if not typed_container:
                ctx.ob("default.fresh", fn, n.ast, True, "not a typed list/dict field (untyped Field: outside the property's domain; "
                       "ChallengeField: immutable tuple)", node=n, nontrivial=False)
                continue
            # __setdefault__ specialised for "the declared default is a list (dict)": whatever can then be handed to
            # _set_default_value has to be a newly built object (proxy, list(...), dict(...), a copy, a display)
            from engine.specialize import Spec
            want = "list" if "List" in fn.cls.name else "dict"

            def is_declared(e, at, fn=fn):
                if isinstance(e, ast.Attribute) and e.attr in ("default", "_default") and isinstance(e.value, ast.Name) and e.value.id == fn.self_name:
                    return True
                if isinstance(e, ast.Name):
                    srcs = value_sources(fn, e, at)
                    return bool(srcs) and all(k == "expr" and isinstance(pl, ast.Attribute) and is_declared(pl, None) for k, pl in srcs)
                return False

            def decide(e, node, ft=ft):
                if isinstance(e, ast.Call) and isinstance(e.func, ast.Name) and e.func.id == "isinstance" and len(e.args) == 2 and is_declared(e.args[0], node):
                    spec = ft.class_spec(e.args[1], {}) or []
                    if spec:
                        return want in spec or ("Mapping" in spec and want == "dict") or ("Sequence" in spec and want == "list")
                if isinstance(e, ast.Compare) and len(e.ops) == 1 and is_declared(e.left, node) and isinstance(e.comparators[0], ast.Constant) \
                        and e.comparators[0].value is None:
                    return isinstance(e.ops[0], (ast.IsNot, ast.NotEq))
                return None
            sp = Spec(an, fn, decide)

            def is_deep_copier(call):
                nn = g.nodes_for(call)
                tgs = an.targets(fn, nn[0]) if nn else []
                if ast.unparse(call.func).split(".")[-1] == "deepcopy":
                    return True
                for t in tgs:
                    f2 = getattr(t, "fn", None)
                    if t.kind != "fn" or f2 is None or isinstance(f2.node, ast.Lambda):
                        return False
                    recursive = any(isinstance(x, ast.Call) and isinstance(x.func, ast.Name) and x.func.id == f2.name for x in ast.walk(f2.node))
                    kinds_ = {c_ for x in ast.walk(f2.node) if isinstance(x, ast.Call) and isinstance(x.func, ast.Name) and x.func.id == "isinstance" and len(x.args) == 2
                              for c_ in (an.ft(f2).class_spec(x.args[1], {}) or [])}
                    if not (recursive and {"list", "dict"} <= kinds_):
                        return False
                    # ... and it has no shallow way out for a list / dict: a return of `value.copy()` / copy.copy(value) /
                    # type(value)(value) hands back a container whose nested lists and dicts are still the declared default's
                    ps_ = set(f2.positional_params)
                    for x in ast.walk(f2.node):
                        if isinstance(x, ast.Return) and isinstance(x.value, ast.Call):
                            c_ = x.value
                            shallow_ = (isinstance(c_.func, ast.Attribute) and c_.func.attr == "copy" and not c_.args and isinstance(c_.func.value, ast.Name) and c_.func.value.id in ps_) \
                                or (ast.unparse(c_.func) in ("copy.copy", "list", "dict") and len(c_.args) == 1 and isinstance(c_.args[0], ast.Name) and c_.args[0].id in ps_) \
                                or (isinstance(c_.func, ast.Call) and ast.unparse(c_.func.func) == "type")
                            if shallow_:
                                return False
                return bool(tgs)
            def fresh_leaf(v):
                if isinstance(v, ast.Subscript) and isinstance(v.slice, ast.Slice) and v.slice.lower is None and v.slice.upper is None:
                    return True         # x[:]
                if isinstance(v, (ast.List, ast.Dict, ast.Set, ast.Tuple, ast.ListComp, ast.DictComp, ast.SetComp)):
                    return True         # [*x], {**x}, comprehensions: new containers
                if isinstance(v, ast.Constant):
                    return True
                if isinstance(v, ast.Call):
                    if is_deep_copier(v):
                        return True     # given a list / dict, a deep copier returns a newly built one
                    tg = an.targets(fn, g.nodes_for(v)[0]) if g.nodes_for(v) else []
                    return bool(tg) and all(an.returns_fresh(t) for t in tg)
                return False
            ok, why = True, "a declared list/dict default reaches the configuration only as a newly built object"
            if n in sp.normal:
                for k, leaf in sp.sources(arg, n):
                    if k == "expr" and fresh_leaf(leaf):
                        continue
                    if k == "expr" and isinstance(leaf, ast.Call):
                        # what matters is where the *declared default* can end up: a value computed from something else (the
                        # validated environment variable) is not the schema's object
                        at_ = sp.where.get(id(leaf)) or n
                        from_declared = any(is_declared(x, at_) or (isinstance(x, ast.Name) and any(
                            k2 == "expr" and isinstance(p2, ast.AST) and any(is_declared(y, None) for y in ast.walk(p2))
                            for k2, p2 in sp.sources(x, at_))) for a_ in list(leaf.args) + [kw_.value for kw_ in leaf.keywords] for x in ast.walk(a_)
                            if isinstance(x, (ast.Name, ast.Attribute)))
                        if not from_declared and not (isinstance(leaf.func, ast.Attribute) and is_declared(leaf.func.value, at_)):
                            continue
                        ok, why = False, "default comes from %s, which does not build a new object" % ast.unparse(leaf)[:60]
                    else:
                        ok, why = False, ("the declared default object itself (%s) can be stored in the configuration: every configuration of the "
                                          "schema then shares one mutable %s" % (ast.unparse(leaf)[:40] if isinstance(leaf, ast.AST) else k, want))
            ctx.ob("default.fresh", fn, n.ast, ok, why, node=n)
            # ... and the copy is deep: lists and dicts *inside* the declared default are per-configuration too.  Followed
            # from the stored value back to self.default: a proxy constructor, list(), dict(), a slice, a display or a
            # comprehension copies one level only; the data has to pass a deep copy (copy.deepcopy, or a function that
            # rebuilds lists and dicts by calling itself on their members) on the way
            shallow = None
            if n in sp.normal and ok:
                todo, seen_ = [(arg, n)], set()
                while todo and shallow is None:
                    e_, at_ = todo.pop()
                    for k, leaf in sp.sources(e_, at_):
                        if id(leaf) in seen_:
                            continue
                        seen_.add(id(leaf))
                        where_ = sp.where.get(id(leaf)) or at_
                        if k != "expr" or isinstance(leaf, ast.Constant):
                            continue
                        if is_declared(leaf, where_):
                            shallow = leaf
                        elif isinstance(leaf, ast.Call) and is_deep_copier(leaf):
                            continue
                        elif isinstance(leaf, ast.Call):
                            # the data argument of a copying call: the last positional one (ListProxy(cfg, self, data), list(data))
                            data = [a_ for a_ in leaf.args if not isinstance(a_, ast.Starred)]
                            if isinstance(leaf.func, ast.Attribute) and leaf.func.attr == "copy" and not leaf.args:
                                data = [leaf.func.value]
                            todo += [(a_, where_) for a_ in data[-1:]]
                        elif isinstance(leaf, ast.Subscript):
                            todo.append((leaf.value, where_))
                        elif isinstance(leaf, (ast.List, ast.Tuple, ast.Set)):
                            todo += [(x.value if isinstance(x, ast.Starred) else x, where_) for x in leaf.elts]
                        elif isinstance(leaf, ast.Dict):
                            todo += [(v_, where_) for k_, v_ in zip(leaf.keys, leaf.values) if k_ is None]
                        elif isinstance(leaf, (ast.ListComp, ast.DictComp, ast.SetComp)):
                            todo.append((leaf.generators[0].iter, where_))
                        elif isinstance(leaf, ast.Name):
                            todo.append((leaf, where_))
            ctx.ob("default.deep-fresh", fn, n.ast, shallow is None,
                   "nested lists and dicts of the declared default are copied as well" if shallow is None else
                   "the declared default is copied one level deep only: a list or dict nested inside it is shared by every configuration of the "
                   "schema and with the field's declared default (c1.items[0]['k'] = 1 shows in c2 and in field.default)", node=n)
    ctx.need(nsites >= 5, "fewer than 5 default stores found")
    # default stores outside the fields' own __setdefault__ (helpers such as reset_value): the declared default must not be
    # handed over as it is -- the per-configuration copy / proxy is made by __setdefault__ only
    for fn in an.fns():
        if fn.name == "__setdefault__" and fn.cls is not None and fn.cls.is_subclass_of(Base):
            continue
        g = an.cfg(fn)
        for n in g.nodes:
            if n.kind != "call" or sdv not in an.callees(fn, n) or len(n.ast.args) < 2:
                continue
            arg = n.ast.args[1]
            raw = [leaf for k, leaf in value_sources(fn, arg, n)
                   if k == "expr" and isinstance(leaf, ast.Attribute) and leaf.attr in ("default", "_default")]
            ctx.ob("default.fresh", fn, n.ast, not raw,
                   "does not hand a field's declared default to the configuration" if not raw else
                   "%s stores a field's declared default object (%s) without the per-configuration copy made by __setdefault__: "
                   "a list/dict default is then shared by the schema and every configuration reset this way" % (fn.qualname, ast.unparse(raw[0])),
                   node=n, nontrivial=bool(raw))



def check(ctx):
    an, model = ctx.an, ctx.model
    state = an.summary(STATE)
    fstate = an.summary(FIELDSTATE)
    Base = model.cls("BaseField")
    Schema = model.cls("Schema")
    Config = model.cls("Config")

    # ---------------------------------------------------------------- C13.1
    nmeth = 0
    for fn in an.fns():
        if fn.cls is None or not fn.cls.is_subclass_of(Base):
            continue
        if is_builder(an, fn):
            continue
        nmeth += 1
        bad = []
        for n in an.cfg(fn).nodes:
            for ev in list(state.node_events(fn, n)) + list(fstate.node_events(fn, n)):
                if ev[0] in ("W_ATTR", "W_FIELDS", "W_ATTR_MUT") and ev[1] is not None and ev[1][0] == "self":
                    bad.append((n, ev))
        if not bad:
            ctx.ob("field.stateless", fn, "%s writes no state of its field" % fn.qualname, True,
                   "no store into self (directly or through callees)", nontrivial=takes_config(an, fn))
        seen = set()
        for n, ev in bad:
            if (n.id, ev[2]) in seen:
                continue
            seen.add((n.id, ev[2]))
            ctx.ob("field.stateless", fn, n.ast if n.ast is not None else n.stmt, False,
                   "%s on %s.%s in a run-time method: the field object is shared by every configuration of the schema, so one "
                   "configuration's operation changes what another observes" % (ev[0], ap_str(ev[1]), ev[2]), node=n)
    ctx.need(nmeth >= 60, "fewer than 60 run-time field methods analysed (%d)" % nmeth)
    # class-level mutable state of field classes mutated at run time
    for fn in an.fns():
        for n in an.cfg(fn).nodes:
            for ev in fstate.direct(fn, n):
                ap = ev[1]
                if ap is not None and ap[0] == "global" and ap[1] and ap[1][0] in model.classes and model.classes[ap[1][0]].is_subclass_of(Base):
                    ctx.ob("field.class-state", fn, n.ast, False, "class-level state of %s is mutated at run time" % ap[1][0], node=n)

    check_fresh_defaults(ctx)
    from .common import check_own_tables
    check_own_tables(ctx)       # shared clause: the field table to_tree reads / the tables configurations must not share

    # ---------------------------------------------------------------- C13.3
    nmut = 0
    for fn in an.fns():
        ft = an.ft(fn)
        for n in an.cfg(fn).nodes:
            for owner, op, key, val in container_mutations(an, fn, n, "_fields"):
                ot = ft.type_of(owner, ft.env_in.get(n) or {})
                is_schema = ot != "ANY" and any(isinstance(a, str) and a in model.classes and model.classes[a].is_subclass_of(Schema) for a in ot)
                is_config = ot != "ANY" and any(isinstance(a, str) and a in model.classes and model.classes[a].is_subclass_of(Config) for a in ot)
                nmut += 1
                if is_schema or ot == "ANY":
                    ok = fn.cls is Schema and (fn.name in ("_add_field", "__init__") or is_builder(an, fn))
                    ctx.ob("schema-fields.single-owner", fn, n.ast, ok,
                           "the schema's field table is written by its constructor / _add_field" if ok else
                           "%s mutates a schema's field table (%s): the change is visible to every configuration of the schema" % (fn.qualname, op), node=n)
                elif is_config:
                    ok = fn.cls is not None and fn.cls.is_subclass_of(Config) and fn.name in ("__init__", "_set_value")
                    ctx.ob("config-fields.owner", fn, n.ast, ok, "dynamic fields are recorded on the configuration itself" if ok else
                           "%s mutates a configuration's dynamic field table" % fn.qualname, node=n)
    ctx.need(nmut >= 3, "fewer than 3 writes of _fields tables found")
    # run-time code never calls the creating accessors of Schema
    creating = {f for name, f in Schema.methods.items() if name in CREATING}
    for fn in an.fns():
        if is_builder(an, fn):
            continue
        # deprecated Schema wrappers and schema-building API are builders; everything else is run time
        for n in an.cfg(fn).nodes:
            hit = [t.fn for t in an.targets(fn, n) if t.kind == "fn" and t.fn in creating and t.via != "name"]
            if hit:
                ctx.ob("schema.no-creating-accessor-at-runtime", fn, n.ast if n.ast is not None else n.stmt, False,
                       "%s calls %s: reading an unknown name creates a field on the shared schema" % (fn.qualname, hit[0].qualname), node=n)
    ctx.ob("schema.no-creating-accessor-at-runtime", Schema, "run-time callers of Schema.__getattr__/__getitem__/__setitem__/_add_field", True,
           "checked %d functions outside the builder API" % len([f for f in an.fns() if not is_builder(an, f)]), nontrivial=False)
    # to_tree works on a copy
    to_tree = model.method("Config", "to_tree")
    # nothing in to_tree mutates a mapping that may be the schema's own field table: a receiver of update / setdefault / pop /
    # item assignment that is `<...>._schema._fields` itself or a local bound to it without a copy
    gt = an.cfg(to_tree)

    def schema_table(e, node, depth=0):
        if isinstance(e, ast.Attribute) and e.attr == "_fields":
            return any(isinstance(y, ast.Attribute) and y.attr == "_schema" for y in ast.walk(e.value)) or \
                (isinstance(e.value, ast.Name) and e.value.id != to_tree.self_name)
        if isinstance(e, ast.Name) and depth < 4:
            return any(k == "expr" and isinstance(pl, ast.AST) and not isinstance(pl, ast.Name) and schema_table(pl, None, depth + 1)
                       for k, pl in value_sources(to_tree, e, node))
        return False
    bad_mut = None
    for n in gt.nodes:
        x = n.ast
        if n.kind == "call" and isinstance(x, ast.Call) and isinstance(x.func, ast.Attribute) and x.func.attr in ("update", "setdefault", "pop", "popitem", "clear", "__setitem__") \
                and schema_table(x.func.value, n):
            bad_mut = n
        if n.kind == "assign" and isinstance(x, (ast.Assign, ast.AugAssign)):
            tgts = x.targets if isinstance(x, ast.Assign) else [x.target]
            if any(isinstance(t, ast.Subscript) and schema_table(t.value, n) for t in tgts) or \
                    (isinstance(x, ast.AugAssign) and isinstance(x.op, ast.BitOr) and schema_table(x.target, n)):
                bad_mut = n
    ctx.ob("schema-fields.copied-before-merge", to_tree, "no mutation of the schema's field table while rendering", bad_mut is None,
           "to_tree merges dynamic fields into a copy, the schema's table is only read" if bad_mut is None else
           "to_tree mutates the schema's own field table (line %s): dynamic fields of one configuration leak into the shared schema" % bad_mut.lineno,
           node=bad_mut, nontrivial=False)

    # ---------------------------------------------------------------- C13.4
    guarded = {"_validators", "validator", "_env_prefix", "_schema", "_dynamic", "env", "_default", "required"}
    for fn in an.fns():
        for n in an.cfg(fn).nodes:
            for ev in list(state.direct(fn, n)) + list(fstate.direct(fn, n)):
                if ev[0] in ("W_ATTR", "W_ATTR_MUT") and ev[2] in guarded:
                    # Config._schema in Config.__init__ is the configuration's own slot
                    ok = is_builder(an, fn) or (fn.cls is not None and fn.cls.is_subclass_of(Config) and fn.name == "__init__")
                    ctx.ob("schema-state.builder-only", fn, n.ast, ok,
                           "written by the builder API / a constructor" if ok else
                           "%s writes %s at run time: schema-level state changes under existing configurations" % (fn.qualname, ev[2]),
                           node=n, nontrivial=not ok)
