"""C09 -- challenge fields keep only a salted hash that verifies exactly the secret."""
from __future__ import annotations

import ast

from engine.defuse import value_sources
from engine.flow import dominating_guards, expand_aliases, falls_through, path_avoiding, reachable_from_entry, returns_of, same_name_value
from engine.model import Symbol
from .c03 import taint_reaches
from .common import CALLS

META = {
    "explanation": (
        "Hash behaviour and randomness are not decidable statically. Decided: ChallengeField._validate and "
        "to_python return only DigestValue (None only for None); the plaintext parameter reaches what "
        "DigestValue.create returns only through the hasher; the validation and load routes call the hasher "
        "without a salt and the no-salt branch draws os.urandom(hasher.digest_size); create and challenge hash "
        "salt + plaintext in the same operand order and encode text the same way; challenge raises under a "
        "comparison of the stored and the recomputed digest; the on-disk form writes and reads the same two keys "
        "with inverse base64 calls; the algorithm table maps each offered name to the hashlib constructor of the "
        "same name; plaintext found in a file is hashed."),
    "decided": ["C09.1 only DigestValue leaves validate/load; no plaintext component", "C09.2 fresh salt of digest length",
                "C09.3 create/challenge agree on the hash input", "C09.4 codec key sets and inverse encodings", "C09.5 algorithm table"],
    "not_decided": ["q != p fails the challenge; salts differ between assignments (probabilistic); digest equality after reload"],
}


def is_type(t, names):
    return t != "ANY" and bool(t) and all(isinstance(a, str) and a in names for a in t)



CODEC_INVERSE = {"b64encode": "b64decode", "urlsafe_b64encode": "urlsafe_b64decode", "standard_b64encode": "standard_b64decode",
                 "b32encode": "b32decode", "b16encode": "b16decode", "hexlify": "unhexlify", "hex": "fromhex", "b85encode": "b85decode",
                 "a85encode": "a85decode"}


def feed_sequence(an, fn, pparam):
    """What is hashed, in order: (kinds, encodings, parts, hasher constructor call).

    The hasher is the object whose .digest() is taken; its input is the constructor argument followed by the argument of
    every .update() on it, `a + b` counting as a then b.  Each piece is classified by provenance: 'plaintext' when it
    comes from parameter *pparam* (through .encode() / a conditional encode), 'salt' when it comes from a salt parameter
    / attribute or os.urandom (through slicing), '?' otherwise.  kinds is None when no hasher is found."""
    g = an.cfg(fn)
    digests = [n for n in g.nodes if n.kind == "call" and isinstance(n.ast.func, ast.Attribute) and n.ast.func.attr in ("digest", "hexdigest")]
    if not digests:
        return None, [], [], None
    dn = digests[0]
    recv = dn.ast.func.value

    def is_ctor(e):
        return isinstance(e, ast.Call) and ((isinstance(e.func, ast.Name) and "algorithm" in e.func.id) or
                                            (isinstance(e.func, ast.Attribute) and "algorithm" in e.func.attr))
    ctor = None
    feeds = []      # (expr, node)
    if is_ctor(recv):
        ctor = recv
    elif isinstance(recv, ast.Name):
        for k, pl in value_sources(fn, recv, dn):
            if k == "expr" and is_ctor(pl):
                ctor = pl
    if ctor is None:
        return None, [], [], None
    cn = g.nodes_for(ctor)
    for a in ctor.args[:1]:
        feeds.append((a, cn[0] if cn else None))
    if isinstance(recv, ast.Name):
        ups = [n for n in g.nodes if n.kind == "call" and isinstance(n.ast.func, ast.Attribute) and n.ast.func.attr == "update"
               and isinstance(n.ast.func.value, ast.Name) and same_name_value(fn, n.ast.func.value, n, recv, dn) and n.ast.args]
        ups.sort(key=lambda n: (n.lineno, getattr(n.ast, "col_offset", 0)))
        for u in ups:
            # every update counts only if it happens on every path to the digest
            if path_avoiding(an, fn, g.entry, lambda x: x is dn, lambda x, u=u: x is u) is not None:
                feeds.append((ast.Constant(value="<conditional update>"), u))
            else:
                feeds.append((u.ast.args[0], u))
    encodings = []
    parts = []

    def flatten(e):
        if isinstance(e, ast.BinOp) and isinstance(e.op, ast.Add):
            return flatten(e.left) + flatten(e.right)
        return [e]

    def classify(e, node, depth=0):
        if depth > 6:
            return {"?"}
        out = set()
        if isinstance(e, ast.Name):
            srcs = value_sources(fn, e, node)
        else:
            srcs = [("expr", e)]
        for k, pl in srcs:
            if k == "param":
                out.add("plaintext" if pl == pparam else ("salt" if "salt" in pl else "?"))
            elif k == "expr" and isinstance(pl, ast.Attribute) and isinstance(pl.value, ast.Name) and pl.value.id == fn.self_name:
                out.add("salt" if pl.attr == "salt" else "?")
            elif k == "expr" and isinstance(pl, ast.Subscript) and isinstance(pl.slice, ast.Slice):
                out |= classify(pl.value, None, depth + 1)
            elif k == "expr" and isinstance(pl, ast.Call) and isinstance(pl.func, ast.Attribute) and pl.func.attr == "encode":
                inner = classify(pl.func.value, None, depth + 1)
                if inner == {"plaintext"}:
                    encodings.append(tuple(ast.unparse(a) for a in pl.args) + tuple("%s=%s" % (kw.arg, ast.unparse(kw.value)) for kw in pl.keywords))
                out |= inner
            elif k == "expr" and isinstance(pl, ast.Call) and ast.unparse(pl.func).endswith("urandom"):
                out.add("salt")
            elif k == "expr" and isinstance(pl, ast.IfExp):
                out |= classify(pl.body, None, depth + 1) | classify(pl.orelse, None, depth + 1)
            elif k == "expr" and isinstance(pl, ast.Name) and pl is not e:
                out |= classify(pl, None, depth + 1)
            elif k == "expr" and isinstance(pl, ast.Call) and isinstance(pl.func, ast.Name) and pl.func.id in ("bytes",) and len(pl.args) == 1:
                out |= classify(pl.args[0], None, depth + 1)
            else:
                out.add("?")
        return out
    kinds = []
    for e, node in feeds:
        for piece in flatten(e):
            ks = classify(piece, node)
            kind = next(iter(ks)) if len(ks) == 1 else "?"
            kinds.append(kind)
            parts.append((kind, piece, node))
    return kinds, sorted(set(encodings)), parts, ctor


def check(ctx):
    an, model = ctx.an, ctx.model
    from .c02 import check_container_items_encoded
    check_container_items_encoded(ctx)      # secrets / digests held as items of typed lists and dicts
    # shared clause (C01): "stores only a salted hash" holds for a challenge field used as the item / value field of a typed
    # container only if everything the container stores went through the field's validation (which hashes)
    from .c01 import check_taint
    sub0 = type(ctx)(ctx.pid, ctx.an, ctx.tier)
    check_taint(sub0)
    ctx.obligations.extend(sub0.obligations)
    calls = an.summary(CALLS)
    CF = model.cls("ChallengeField")
    DV = model.cls("DigestValue")
    create = model.method("DigestValue", "create")
    challenge = model.method("DigestValue", "challenge")

    # ---------------------------------------------------------------- C09.1
    for name in ("_validate", "to_python"):
        f = model.method("ChallengeField", name)
        ft = an.ft(f)
        vparam = f.positional_params[2]
        ok_ft = not falls_through(an, f)
        ctx.ob("returns.no-fall-through", f, "%s returns on every path" % f.qualname, ok_ft,
               "no implicit None" if ok_ft else "%s can fall off the end: the plaintext/unknown value is silently replaced by None" % f.qualname)
        for r in returns_of(an, f):
            t = ft.type_at(r, r.ast.value)
            under_none = any(tr and isinstance(x.ast, ast.Compare) and isinstance(x.ast.ops[0], ast.Is) and isinstance(x.ast.left, ast.Name)
                             and x.ast.left.id == vparam for x, tr in dominating_guards(an, f, r))
            ok = is_type(t, {"DigestValue"}) or (under_none and is_type(t, {"NoneType", "DigestValue"}))
            if not ok and under_none:
                ok = True   # `return value` under `value is None`
            ctx.ob("returns.digest-only", f, r.ast, ok,
                   "returns a DigestValue" if ok else
                   "can return %s (type %s): something other than a salted digest is kept in memory / stored" % (ast.unparse(r.ast.value), t), node=r)
    fields = DV.package_mro()[1].namedtuple_fields if len(DV.package_mro()) > 1 else None
    okf = fields is not None and set(fields) == {"salt", "digest", "algorithm"}
    ctx.ob("shape.digest-value", DV, "DigestValue fields", okf, "fields are (salt, digest, algorithm): no plaintext component" if okf else
           "DigestValue has fields %s" % fields)
    pparam = create.positional_params[1]
    for r in returns_of(an, create):
        hashed = lambda c: isinstance(c.func, ast.Attribute) and c.func.attr in ("digest", "hexdigest")
        off = taint_reaches(an, create, r.ast.value, r, pparam, lambda tg: False, ast_sanitizer=hashed)
        ctx.ob("taint.plaintext-not-in-digest-value", create, r.ast, off is None,
               "the plaintext reaches the returned tuple only through the hasher" if off is None else
               "the plaintext flows into the DigestValue: %s" % ast.unparse(off)[:60], node=r)
        v = r.ast.value
        okd = isinstance(v, ast.Call) and len(v.args) >= 2 and any(
            k == "expr" and isinstance(pl, ast.Call) and isinstance(pl.func, ast.Attribute) and pl.func.attr == "digest"
            for k, pl in value_sources(create, v.args[1], r))
        ctx.ob("digest.from-hasher", create, r.ast, okd, "the stored digest is hasher.digest()" if okd else
               "the digest component is not the hasher's digest", node=r)
    # the hasher is fed salt, then plaintext -- as one `salt + plaintext` or as consecutive update() calls
    co, c_enc, c_parts, c_hasher = feed_sequence(an, create, pparam)
    if co is None:
        co, c_enc, c_parts = [], [], []
    ctx.ob("hash-input.create", create, "bytes fed to the hasher", co == ["salt", "plaintext"], "hash(salt + plaintext)" if co == ["salt", "plaintext"] else
           ("create hashes %s" % (co,) if co else "DigestValue.create does not take the digest of a hasher fed with the plaintext"))
    g2 = an.cfg(challenge)
    ch, h_enc, h_parts, h_hasher = feed_sequence(an, challenge, challenge.positional_params[1])
    if ch is None:
        ctx.ob("hash-input.agree", challenge, "bytes fed to the hasher", False, "DigestValue.challenge no longer recomputes the hash of its argument")
        hcalls = []
    else:
        hcalls = [h_hasher]
        ctx.ob("hash-input.agree", challenge, "bytes fed to the hasher", ch == co,
               "create and challenge hash the salt and the plaintext in the same order" if ch == co else
               "create hashes %s but challenge hashes %s: no secret ever verifies" % (co, ch))
    # the salt used in create's hash is the salt stored
    salt_arg = None
    ret_node = None
    for r in returns_of(an, create):
        if isinstance(r.ast.value, ast.Call) and r.ast.value.args:
            salt_arg, ret_node = r.ast.value.args[0], r
    salt_parts = [(e, n) for kind, e, n in c_parts if kind == "salt"]
    same_salt = isinstance(salt_arg, ast.Name) and len(salt_parts) == 1 and isinstance(salt_parts[0][0], ast.Name) \
        and same_name_value(create, salt_arg, ret_node, salt_parts[0][0], salt_parts[0][1])
    ctx.ob("salt.stored-is-used", create, "salt hashed == salt stored", same_salt, "the salt mixed into the hash is the one stored" if same_salt else
           "the salt stored differs from the salt mixed into the hash")
    # text encoding agrees
    e1, e2 = sorted(c_enc), sorted(h_enc)
    ctx.ob("hash-input.encoding", challenge, "str plaintext encoded identically", e1 == e2 and len(e1) == 1,
           "both sides encode text with .encode(%s)" % ", ".join(e1[0]) if e1 == e2 and len(e1) == 1 else
           "create encodes text with %s, challenge with %s" % (e1, e2))
    # challenge compares and raises
    okc = False
    for n in g2.nodes:
        if n.kind == "raise":
            for t, tr in dominating_guards(an, challenge, n):
                e = t.ast
                if isinstance(e, ast.Compare) and len(e.ops) == 1 and any(isinstance(x, ast.Attribute) and x.attr == "digest" for x in ast.walk(e)):
                    if (isinstance(e.ops[0], ast.NotEq) and tr) or (isinstance(e.ops[0], ast.Eq) and not tr):
                        okc = True
                if isinstance(e, ast.Call) and ast.unparse(e.func).endswith("compare_digest") and not tr and \
                        any(isinstance(x, ast.Attribute) and x.attr == "digest" for a in e.args for x in ast.walk(a)):
                    okc = True
    ctx.ob("challenge.raises-on-mismatch", challenge, "raise when stored digest != recomputed digest", okc,
           "a mismatch raises" if okc else "challenge no longer raises exactly when the digests differ")
    ft = falls_through(an, challenge) or bool(returns_of(an, challenge))
    ctx.ob("challenge.succeeds-silently", challenge, "normal return on match", ft, "a match returns normally", nontrivial=False)
    # the algorithm used to recompute is the stored one
    usealg = bool(hcalls) and isinstance(hcalls[0].func, ast.Attribute) and hcalls[0].func.attr == "algorithm" \
        and isinstance(hcalls[0].func.value, ast.Name) and hcalls[0].func.value.id == challenge.self_name
    ctx.ob("challenge.same-algorithm", challenge, "hasher constructed from self.algorithm", usealg, "recomputes with the algorithm stored in the value" if usealg else
           "challenge does not use the stored algorithm")

    # ---------------------------------------------------------------- C09.2 fresh salt
    h = model.method("ChallengeField", "_hash")
    for name in ("_validate", "to_python"):
        f = model.method("ChallengeField", name)
        for n in an.cfg(f).nodes:
            if n.kind == "call" and h in an.callees(f, n):
                salted = len(n.ast.args) > 1 or any(k.arg == "salt" for k in n.ast.keywords)
                ctx.ob("salt.not-supplied", f, n.ast, not salted, "hashes without a fixed salt (a fresh one is drawn)" if not salted else
                       "%s passes a fixed salt: equal secrets get equal salts and digests" % f.qualname, node=n)
    for n in an.cfg(h).nodes:
        if n.kind == "call" and create in an.callees(h, n):
            kws = {k.arg: k.value for k in n.ast.keywords}
            s = kws.get("salt") or (n.ast.args[2] if len(n.ast.args) > 2 else None)
            oks = s is None or all(k == "param" for k, _ in value_sources(h, s, n))
            ctx.ob("salt.forwarded-unchanged", h, n.ast, oks, "_hash hands its (default None) salt on unchanged" if oks else
                   "_hash supplies a salt of its own", node=n)
            p0 = n.ast.args[0] if n.ast.args else kws.get("plaintext")
            okp = p0 is not None and all(k == "param" for k, _ in value_sources(h, p0, n))
            ctx.ob("plaintext.forwarded-unchanged", h, n.ast, okp, "_hash hands the plaintext on unchanged (what is hashed is what challenge() will be given)" if okp else
                   "_hash transforms the plaintext before hashing it (%s) but DigestValue.challenge does not: the assigned secret no longer verifies"
                   % ", ".join(ast.unparse(pl)[:40] for k, pl in value_sources(h, p0, n) if k == "expr"), node=n)
            a1 = kws.get("algorithm") or (n.ast.args[1] if len(n.ast.args) > 1 else None)
            oka = isinstance(a1, ast.Attribute) and a1.attr == "algorithm"
            ctx.ob("algorithm.of-field", h, n.ast, oka, "hashes with the field's algorithm" if oka else "does not hash with the field's algorithm", node=n)
    d = dict(zip([a.arg for a in h.node.args.args][-len(h.node.args.defaults):], h.node.args.defaults)) if h.node.args.defaults else {}
    okdflt = isinstance(d.get("salt"), ast.Constant) and d["salt"].value is None
    ctx.ob("salt.default-none", h, "salt: Optional[bytes] = None", okdflt, "no salt by default" if okdflt else "_hash has a non-None default salt")
    d = dict(zip([a.arg for a in create.node.args.args][-len(create.node.args.defaults):], create.node.args.defaults)) if create.node.args.defaults else {}
    okdflt = isinstance(d.get("salt"), ast.Constant) and d["salt"].value is None
    ctx.ob("salt.default-none", create, "salt: Optional[bytes] = None", okdflt, "no salt by default" if okdflt else "create has a non-None default salt")
    g = an.cfg(create)
    fresh = False
    from engine.flow import guard_atoms
    sparam = next((a.arg for a in create.params if "salt" in a.arg), None)

    def is_salt_param(e, at):
        if not isinstance(e, ast.Name):
            return False
        if e.id == sparam:
            return True
        srcs = value_sources(create, e, at)
        return bool(srcs) and all(k == "param" and p_ == sparam for k, p_ in srcs)

    def digest_size_expr(e, at, depth=0):
        if isinstance(e, ast.Attribute) and e.attr == "digest_size":
            return True
        if isinstance(e, ast.Name) and depth < 4:
            srcs = value_sources(create, e, at)
            return bool(srcs) and all(k == "expr" and isinstance(pl, ast.AST) and digest_size_expr(pl, None, depth + 1) for k, pl in srcs)
        return False
    # the salt that is stored (first component of the returned DigestValue): where does it come from when none is given?
    stored_salts = [r.ast.value.args[0] for r in returns_of(an, create) if isinstance(r.ast.value, ast.Call) and r.ast.value.args]
    urandoms = []
    for r in returns_of(an, create):
        if isinstance(r.ast.value, ast.Call) and r.ast.value.args:
            for k, pl in value_sources(create, r.ast.value.args[0], r):
                if k == "expr" and isinstance(pl, ast.Call) and any(e[0] == "URANDOM" for nn in g.nodes_for(pl) for e in calls.direct(create, nn)):
                    urandoms.append(pl)
    for u in urandoms:
        un = g.nodes_for(u)[0]
        arg = u.args[0] if u.args else None
        size_ok = arg is not None and digest_size_expr(arg, un)
        guard_ok = any((not tr) and is_salt_param(e_, t_) for e_, tr, t_ in guard_atoms(an, create, un)) or \
            any(tr and isinstance(e_, ast.Compare) and len(e_.ops) == 1 and isinstance(e_.ops[0], ast.Is) and is_salt_param(e_.left, t_)
                and isinstance(e_.comparators[0], ast.Constant) and e_.comparators[0].value is None for e_, tr, t_ in guard_atoms(an, create, un))
        fresh = size_ok and guard_ok
        ctx.ob("salt.fresh", create, u, fresh,
               "without a given salt, os.urandom(hasher.digest_size) is drawn per call and becomes the stored salt" if fresh else
               "the no-salt branch does not draw os.urandom(hasher.digest_size) (size ok: %s, under `not salt`: %s)" % (size_ok, guard_ok), node=un)
    if not urandoms:
        ctx.ob("salt.fresh", create, "salt = os.urandom(hasher.digest_size)", False, "create never draws a random salt (none reaches the stored DigestValue)")

    # ---------------------------------------------------------------- C09.4 codec
    tb, tp = model.method("ChallengeField", "to_basic"), model.method("ChallengeField", "to_python")
    wkeys = set()
    enc_calls = 0
    enc_names = {}
    vparam_tb = tb.positional_params[2]
    fields_dv = list(fields or [])

    def component_of(e, node):
        """which DigestValue component does *e* denote (value.salt, an unpacked `salt, digest, _ = value`, value[0])?"""
        if isinstance(e, ast.Attribute) and isinstance(e.value, ast.Name) and e.value.id == vparam_tb:
            return e.attr
        if isinstance(e, ast.Subscript) and isinstance(e.value, ast.Name) and e.value.id == vparam_tb and isinstance(e.slice, ast.Constant) \
                and isinstance(e.slice.value, int) and e.slice.value < len(fields_dv):
            return fields_dv[e.slice.value]
        if isinstance(e, ast.Name):
            comps = set()
            for k, pl in value_sources(tb, e, node):
                if k == "unpack" and isinstance(pl[0], ast.Name) and pl[0].id == vparam_tb and pl[1] is not None and pl[1] < len(fields_dv):
                    comps.add(fields_dv[pl[1]])
                elif k == "expr" and isinstance(pl, (ast.Attribute, ast.Subscript)):
                    comps.add(component_of(pl, None))
                else:
                    comps.add(None)
            return next(iter(comps)) if len(comps) == 1 else None
        return None

    def written_entries(v, node):
        """(key constant, value expression, substitution for comprehension variables) for a dict display / comprehension"""
        out = []
        if isinstance(v, ast.Dict):
            for k, val in zip(v.keys, v.values):
                if isinstance(k, ast.Constant):
                    out.append((k.value, val, {}))
        elif isinstance(v, ast.DictComp) and len(v.generators) == 1 and not v.generators[0].ifs and isinstance(v.generators[0].iter, ast.Call) \
                and isinstance(v.generators[0].iter.func, ast.Name) and v.generators[0].iter.func.id == "zip" and len(v.generators[0].iter.args) == 2 \
                and isinstance(v.generators[0].target, ast.Tuple) and len(v.generators[0].target.elts) == 2 \
                and all(isinstance(t, ast.Name) for t in v.generators[0].target.elts) and isinstance(v.key, ast.Name):
            # {key: enc(part) for key, part in zip(KEYS, parts)}: rows from two parallel displays / constants
            def rows_of(e):
                if isinstance(e, (ast.Tuple, ast.List)):
                    return list(e.elts)
                if isinstance(e, ast.Name):
                    srcs = value_sources(tb, e, node)
                    if len(srcs) == 1 and srcs[0][0] == "expr" and isinstance(srcs[0][1], (ast.Tuple, ast.List)):
                        return list(srcs[0][1].elts)
                try:
                    cv = model.const_eval(tb.module, e, tb.cls)
                    if isinstance(cv, (tuple, list)):
                        return [ast.Constant(value=c) for c in cv]
                except (ValueError, KeyError):
                    pass
                return None
            a_rows, b_rows = rows_of(v.generators[0].iter.args[0]), rows_of(v.generators[0].iter.args[1])
            if a_rows is not None and b_rows is not None and len(a_rows) == len(b_rows):
                names = [t.id for t in v.generators[0].target.elts]
                for ka, vb in zip(a_rows, b_rows):
                    sub = dict(zip(names, (ka, vb)))
                    kx = sub.get(v.key.id)
                    if isinstance(kx, ast.Constant):
                        out.append((kx.value, v.value, sub))
        elif isinstance(v, ast.DictComp) and len(v.generators) == 1 and not v.generators[0].ifs and isinstance(v.generators[0].iter, (ast.Tuple, ast.List)) \
                and isinstance(v.generators[0].target, ast.Tuple) and all(isinstance(t, ast.Name) for t in v.generators[0].target.elts) \
                and isinstance(v.key, ast.Name):
            names = [t.id for t in v.generators[0].target.elts]
            for item in v.generators[0].iter.elts:
                if isinstance(item, ast.Tuple) and len(item.elts) == len(names):
                    sub = dict(zip(names, item.elts))
                    kx = sub.get(v.key.id)
                    if isinstance(kx, ast.Constant):
                        out.append((kx.value, v.value, sub))
        return out
    for r in returns_of(an, tb):
        v = r.ast.value
        for k, pl in (value_sources(tb, v, r) if isinstance(v, ast.Name) else [("expr", v)]):
            if k != "expr":
                continue
            for key, val, sub in written_entries(pl, r):
                wkeys.add(key)
                comps = set()
                for x in ast.walk(val):
                    if isinstance(x, ast.Name) and x.id in sub:
                        comps.add(component_of(sub[x.id], r))
                    elif isinstance(x, (ast.Attribute, ast.Subscript, ast.Name)) and component_of(x, r) is not None and x.__class__ is not ast.Name:
                        comps.add(component_of(x, r))
                    elif isinstance(x, ast.Name) and x.id not in (vparam_tb, "base64") and component_of(x, r) is not None:
                        comps.add(component_of(x, r))
                encs = {ast.unparse(x.func).split(".")[-1] for x in ast.walk(val) if isinstance(x, ast.Call) and ast.unparse(x.func).split(".")[-1] in CODEC_INVERSE}
                enc_names.setdefault(key, set()).update(encs)
                okk = comps == {key} and len(encs) == 1
                enc_calls += 1
                ctx.ob("codec.writes-own-component", tb, "%r: %s" % (key, ast.unparse(val)[:50]), okk, "%r is the base64 of the value's %s" % (key, key) if okk else
                       "key %r is not the base64 of the matching component (it is built from %s)" % (key, sorted(map(str, comps))), node=r)
    rkeys = {}
    mismatch = []
    def key_const(sl):
        """the string a subscript key stands for: a literal, or a local that holds one literal where it is used"""
        if isinstance(sl, ast.Constant) and isinstance(sl.value, str):
            return sl.value
        if isinstance(sl, ast.Name):
            srcs = value_sources(tp, sl, None)
            vals = {pl.value if k == "expr" and isinstance(pl, ast.Constant) and isinstance(pl.value, str) else None for k, pl in srcs}
            if len(vals) == 1 and None not in vals:
                return vals.pop()
        return None
    for x in ast.walk(tp.node):
        if isinstance(x, ast.Subscript) and key_const(x.slice) is not None and isinstance(x.ctx, ast.Load):
            x = ast.copy_location(ast.Subscript(value=x.value, slice=ast.Constant(value=key_const(x.slice)), ctx=x.ctx), x) if not isinstance(x.slice, ast.Constant) else x
            if not hasattr(x, "_parent"):
                orig = [y for y in ast.walk(tp.node) if isinstance(y, ast.Subscript) and y.value is x.value]
                x._parent = getattr(orig[0], "_parent", None) if orig else None
            par = getattr(x, "_parent", None)
            dec = ast.unparse(par.func).split(".")[-1] if isinstance(par, ast.Call) else None
            want = {CODEC_INVERSE[e] for e in enc_names.get(x.slice.value, set())}
            rkeys[x.slice.value] = dec is not None and want == {dec}
            if dec is not None and want and want != {dec}:
                mismatch.append("%r is written with %s but read with %s" % (x.slice.value, sorted(enc_names.get(x.slice.value, [])), dec))
    ctx.ob("codec.key-sets", tp, "keys written == keys read", wkeys == set(rkeys) == {"salt", "digest"},
           "to_basic writes and to_python reads {salt, digest}" if wkeys == set(rkeys) else "to_basic writes %s, to_python reads %s" % (sorted(wkeys), sorted(rkeys)))
    ctx.ob("codec.inverse-encoding", tp, "b64encode <-> b64decode", all(rkeys.values()) and bool(rkeys),
           "both components are decoded with the inverse of the encoder that wrote them" if all(rkeys.values()) and rkeys else
           ("; ".join(mismatch) if mismatch else "a component is read without base64 decoding"))
    # to_python(dict) builds DigestValue(salt, digest, self.algorithm) in that order
    for r in returns_of(an, tp):
        v = r.ast.value
        if isinstance(v, ast.Call) and any(t.kind == "ctor" and t.cls is DV for n in an.cfg(tp).nodes_for(v) for t in an.targets(tp, n)):
            # which expression each component of the tuple receives: by position (the declared field order), by keyword, or
            # through `**parts` where parts is a local dict filled with constant keys
            order = [st.target.id for st in DV.node.body if isinstance(st, ast.AnnAssign) and isinstance(st.target, ast.Name)] or ["salt", "digest", "algorithm"]
            got = {}
            for i_, a_ in enumerate(v.args):
                if not isinstance(a_, ast.Starred) and i_ < len(order):
                    got[order[i_]] = ast.unparse(a_)
            for kw in v.keywords:
                if kw.arg is not None:
                    got[kw.arg] = ast.unparse(kw.value)
                elif isinstance(kw.value, ast.Name):
                    for x_ in ast.walk(tp.node):
                        if isinstance(x_, ast.Assign) and len(x_.targets) == 1 and isinstance(x_.targets[0], ast.Subscript) and isinstance(x_.targets[0].value, ast.Name) \
                                and x_.targets[0].value.id == kw.value.id and key_const(x_.targets[0].slice) is not None:
                            got[key_const(x_.targets[0].slice)] = ast.unparse(x_.value)
                        if isinstance(x_, ast.Assign) and len(x_.targets) == 1 and isinstance(x_.targets[0], ast.Name) and x_.targets[0].id == kw.value.id \
                                and isinstance(x_.value, ast.Dict):
                            for k_, v_ in zip(x_.value.keys, x_.value.values):
                                if k_ is not None and key_const(k_) is not None:
                                    got[key_const(k_)] = ast.unparse(v_)
            names = [got.get(nm, "?") for nm in order]
            oko = len(order) == 3 and all(("'%s'" % nm in got.get(nm, "") or '"%s"' % nm in got.get(nm, "") or nm in got.get(nm, "")) for nm in ("salt", "digest")) \
                and "algorithm" in got.get("algorithm", "") and "digest" not in got.get("salt", "") and "salt" not in got.get("digest", "")
            ctx.ob("codec.component-order", tp, v, oko, "DigestValue(salt, digest, algorithm)" if oko else "components rebuilt in the wrong order: %s" % names, node=r)
    # plaintext in a file is hashed: every return taken for a str value is self._hash(value)
    str_rets = []
    for r in returns_of(an, tp):
        if any(tr and isinstance(t.ast, ast.Call) and ast.unparse(t.ast.func) == "isinstance" and "str" in ast.unparse(t.ast.args[1])
               for t, tr in dominating_guards(an, tp, r)):
            str_rets.append(r)
    okh = bool(str_rets) and all(isinstance(r.ast.value, ast.Call) and an.cfg(tp).nodes_for(r.ast.value) and
                                  h in an.callees(tp, an.cfg(tp).nodes_for(r.ast.value)[0]) for r in str_rets)
    bad = [r for r in str_rets if not (isinstance(r.ast.value, ast.Call) and an.cfg(tp).nodes_for(r.ast.value)
                                      and h in an.callees(tp, an.cfg(tp).nodes_for(r.ast.value)[0]))]
    ctx.ob("load.plaintext-hashed", tp, "str -> self._hash(value) on every path", okh, "a plaintext written by hand is always hashed on load" if okh else
           "a plaintext string in a file can be kept/parsed instead of hashed: `%s`" % (ast.unparse(bad[0].ast) if bad else "no str branch"))

    # ---------------------------------------------------------------- C09.5 algorithm table
    try:
        table = model.const_eval(CF.module, CF.class_attrs["ALGORITHMS"], CF)
    except (KeyError, ValueError) as err:
        table = None
    ok = isinstance(table, dict) and len(table) >= 6 and all(isinstance(v, Symbol) and v.name == "hashlib.%s" % k for k, v in table.items())
    expect = {"md5", "sha1", "sha224", "sha256", "sha384", "sha512"}
    ok = ok and set(table) >= expect        # more algorithms may be offered; each name still means hashlib's function of that name
    ctx.ob("algorithms.table", CF, "ALGORITHMS", ok, "each of the six names maps to hashlib.<name>" if ok else
           "the algorithm table is not name -> hashlib.<name> for the six offered algorithms: %s" % (table,))
    init = model.method("ChallengeField", "__init__")
    rej = any(n.kind == "raise" for n in an.cfg(init).nodes)
    ctx.ob("algorithms.unknown-rejected", init, "unknown algorithm -> raise", rej, "unknown names are rejected" if rej else "unknown algorithm names are accepted")
    # a digest computed while serving one configuration is not remembered on the (schema-wide) field object
    for mname, f in sorted(CF.methods.items()):
        if mname in ("__init__", "__setkey__"):
            continue
        for n in an.cfg(f).nodes:
            if n.kind != "assign" or not isinstance(n.ast, (ast.Assign, ast.AnnAssign, ast.AugAssign)):
                continue
            tgts = n.ast.targets if isinstance(n.ast, ast.Assign) else [n.ast.target]
            for t in tgts:
                base = t
                while isinstance(base, ast.Subscript):
                    base = base.value
                if isinstance(base, ast.Attribute) and isinstance(base.value, ast.Name) and base.value.id == f.self_name:
                    v = n.ast.value
                    hashed_v = False
                    for k, pl in (value_sources(f, v, n) if v is not None else []):
                        if k == "expr" and isinstance(pl, ast.Call) and any(c in (create, h) for nn in an.cfg(f).nodes_for(pl) for c in an.callees(f, nn)):
                            hashed_v = True
                    ctx.ob("salt.not-memoised", f, n.ast, not hashed_v,
                           "field state written here does not hold a computed digest" if not hashed_v else
                           "a digest computed for one configuration is kept on the field (shared by every configuration of the schema): "
                           "later configurations reuse its salt instead of drawing a fresh one", node=n, nontrivial=hashed_v)
    # a default reaches the configuration through the field's own __setdefault__ only (that is where a plaintext default is
    # hashed): nobody hands field.default to _set_default_value directly (shared with C13.2)
    from . import c13
    sub = type(ctx)(ctx.pid, ctx.an, ctx.tier)
    c13.check_fresh_defaults(sub)
    ctx.obligations.extend(o for o in sub.obligations if not o.qualname.endswith("__setdefault__"))
    # __setdefault__: plaintext default is hashed
    sd = model.method("ChallengeField", "__setdefault__")
    sdv = model.method("Config", "_set_default_value")
    # the generic Field.__setdefault__ stores the declared default as it is: ChallengeField may hand over to it only when there is
    # no default at all (`self.default is None`) -- an empty plaintext default ("" is falsy) still has to be hashed
    from engine.flow import guard_atoms
    for n in an.cfg(sd).nodes:
        if n.kind == "call" and any(t.kind == "fn" and t.fn is not None and t.fn.name == "__setdefault__" and t.fn.cls is not None and t.fn.cls.name != "ChallengeField"
                                    for t in an.targets(sd, n)):
            none_only = False
            for e, truth, _t in guard_atoms(an, sd, n):
                e2 = expand_aliases(sd, e, _t)
                if isinstance(e2, ast.Compare) and len(e2.ops) == 1 and isinstance(e2.comparators[0], ast.Constant) and e2.comparators[0].value is None \
                        and isinstance(e2.left, ast.Attribute) and e2.left.attr in ("default", "_default"):
                    if (isinstance(e2.ops[0], ast.Is) and truth) or (isinstance(e2.ops[0], ast.IsNot) and not truth):
                        none_only = True
            ctx.ob("default.generic-route-only-for-none", sd, n.ast, none_only,
                   "the generic route (which stores the default unhashed) is taken only when no default is declared" if none_only else
                   "ChallengeField.__setdefault__ hands over to the generic Field.__setdefault__ on a condition other than `default is None`: an "
                   "empty plaintext default is stored as a plain string, not as a salted digest", node=n)
    for n in an.cfg(sd).nodes:
        if n.kind == "call" and sdv in an.callees(sd, n) and len(n.ast.args) >= 2:
            t = an.ft(sd).type_at(n, n.ast.args[1])
            okd = is_type(t, {"DigestValue"})
            ctx.ob("default.hashed", sd, n.ast, okd, "the stored default is a DigestValue" if okd else
                   "a plaintext default can be stored unhashed (type %s)" % (t,), node=n)
