"""C09 -- challenge fields keep only a salted hash that verifies exactly the secret."""
from __future__ import annotations

import ast

from engine.defuse import value_sources
from engine.flow import dominating_guards, falls_through, reachable_from_entry, returns_of
from engine.model import Symbol
from .c03 import taint_reaches
from .common import CALLS

META = {
    "explanation": (
        "Hash behaviour and randomness are not decidable statically. Decided: ChallengeField._validate and "
        "to_python return only DigestValue (None only for None); the plaintext parameter reaches what "
        "DigestValue.create returns only through the hasher; the validation and load routes call the hasher "
        "without a salt and the no-salt branch draws os.urandom(hasher.digest_size); create and challenge hash "
        "salt + plaintext in the same operand order and encode text the same way; challenge raises under a "
        "comparison of the stored and the recomputed digest; the on-disk form writes and reads the same two keys "
        "with inverse base64 calls; the algorithm table maps each offered name to the hashlib constructor of the "
        "same name; plaintext found in a file is hashed."),
    "decided": ["C09.1 only DigestValue leaves validate/load; no plaintext component", "C09.2 fresh salt of digest length",
                "C09.3 create/challenge agree on the hash input", "C09.4 codec key sets and inverse encodings", "C09.5 algorithm table"],
    "not_decided": ["q != p fails the challenge; salts differ between assignments (probabilistic); digest equality after reload"],
}


def is_type(t, names):
    return t != "ANY" and bool(t) and all(isinstance(a, str) and a in names for a in t)


def check(ctx):
    an, model = ctx.an, ctx.model
    calls = an.summary(CALLS)
    CF = model.cls("ChallengeField")
    DV = model.cls("DigestValue")
    create = model.method("DigestValue", "create")
    challenge = model.method("DigestValue", "challenge")

    # ---------------------------------------------------------------- C09.1
    for name in ("_validate", "to_python"):
        f = model.method("ChallengeField", name)
        ft = an.ft(f)
        vparam = f.positional_params[2]
        ok_ft = not falls_through(an, f)
        ctx.ob("returns.no-fall-through", f, "%s returns on every path" % f.qualname, ok_ft,
               "no implicit None" if ok_ft else "%s can fall off the end: the plaintext/unknown value is silently replaced by None" % f.qualname)
        for r in returns_of(an, f):
            t = ft.type_at(r, r.ast.value)
            under_none = any(tr and isinstance(x.ast, ast.Compare) and isinstance(x.ast.ops[0], ast.Is) and isinstance(x.ast.left, ast.Name)
                             and x.ast.left.id == vparam for x, tr in dominating_guards(an, f, r))
            ok = is_type(t, {"DigestValue"}) or (under_none and is_type(t, {"NoneType", "DigestValue"}))
            if not ok and under_none:
                ok = True   # `return value` under `value is None`
            ctx.ob("returns.digest-only", f, r.ast, ok,
                   "returns a DigestValue" if ok else
                   "can return %s (type %s): something other than a salted digest is kept in memory / stored" % (ast.unparse(r.ast.value), t), node=r)
    fields = DV.package_mro()[1].namedtuple_fields if len(DV.package_mro()) > 1 else None
    okf = fields is not None and set(fields) == {"salt", "digest", "algorithm"}
    ctx.ob("shape.digest-value", DV, "DigestValue fields", okf, "fields are (salt, digest, algorithm): no plaintext component" if okf else
           "DigestValue has fields %s" % fields)
    pparam = create.positional_params[1]
    for r in returns_of(an, create):
        hashed = lambda c: isinstance(c.func, ast.Attribute) and c.func.attr in ("digest", "hexdigest")
        off = taint_reaches(an, create, r.ast.value, r, pparam, lambda tg: False, ast_sanitizer=hashed)
        ctx.ob("taint.plaintext-not-in-digest-value", create, r.ast, off is None,
               "the plaintext reaches the returned tuple only through the hasher" if off is None else
               "the plaintext flows into the DigestValue: %s" % ast.unparse(off)[:60], node=r)
        v = r.ast.value
        okd = isinstance(v, ast.Call) and len(v.args) >= 2 and any(
            k == "expr" and isinstance(pl, ast.Call) and isinstance(pl.func, ast.Attribute) and pl.func.attr == "digest"
            for k, pl in value_sources(create, v.args[1], r))
        ctx.ob("digest.from-hasher", create, r.ast, okd, "the stored digest is hasher.digest()" if okd else
               "the digest component is not the hasher's digest", node=r)
    # the hasher is fed salt + plaintext
    g = an.cfg(create)
    upd = [n for n in g.nodes if n.kind == "call" and n.ast.args and "plain" in ast.unparse(n.ast.args[0])
           and not (isinstance(n.ast.func, ast.Name) and n.ast.func.id in ("isinstance", "len", "str", "bytes"))
           and not (isinstance(n.ast.func, ast.Attribute) and n.ast.func.attr in ("encode", "decode"))
           and (isinstance(n.ast.func, ast.Attribute) and n.ast.func.attr == "update" or any(t.kind == "user" for t in an.targets(create, n)))]
    ctx.need(bool(upd), "DigestValue.create no longer feeds the plaintext to a hasher: vanished anchor")

    def operands(fn, e):
        """(salt-ish, plaintext-ish) classification of a `a + b` hash input"""
        if not (isinstance(e, ast.BinOp) and isinstance(e.op, ast.Add)):
            return None
        def kind(x):
            txt = ast.unparse(x)
            if "salt" in txt:
                return "salt"
            if "plain" in txt:
                return "plaintext"
            return "?"
        return kind(e.left), kind(e.right)

    co = operands(create, upd[0].ast.args[0])
    # the same hasher object produces the digest on every path to the return
    ctx.ob("hash-input.create", create, upd[0].ast, co == ("salt", "plaintext"), "hash(salt + plaintext)" if co == ("salt", "plaintext") else
           "create hashes %s" % (co,), node=upd[0])
    g2 = an.cfg(challenge)
    hcalls = [n for n in g2.nodes if n.kind == "call" and n.ast.args and isinstance(n.ast.args[0], ast.BinOp)]
    ctx.need(bool(hcalls), "DigestValue.challenge no longer recomputes the hash: vanished anchor")
    ch = operands(challenge, hcalls[0].ast.args[0])
    ctx.ob("hash-input.agree", challenge, hcalls[0].ast, ch == co and ch is not None,
           "create and challenge hash the salt and the plaintext in the same order" if ch == co else
           "create hashes %s but challenge hashes %s: no secret ever verifies" % (co, ch), node=hcalls[0])
    # the salt used in create's hash is the salt stored
    salt_arg = None
    for r in returns_of(an, create):
        if isinstance(r.ast.value, ast.Call) and r.ast.value.args:
            salt_arg = r.ast.value.args[0]
    same_salt = isinstance(salt_arg, ast.Name) and isinstance(upd[0].ast.args[0], ast.BinOp) and isinstance(upd[0].ast.args[0].left, ast.Name) \
        and salt_arg.id == upd[0].ast.args[0].left.id
    ctx.ob("salt.stored-is-used", create, "salt hashed == salt stored", same_salt, "the salt mixed into the hash is the one stored" if same_salt else
           "the salt stored differs from the salt mixed into the hash")
    # text encoding agrees
    def encodes(fn):
        """every transformation applied to the plaintext variable (method calls on it, calls taking it, re-assignments)"""
        out = []
        for x in ast.walk(fn.node):
            if isinstance(x, ast.Assign) and any(isinstance(t, ast.Name) and "plain" in t.id for t in x.targets):
                v = x.value
                if isinstance(v, ast.Call) and isinstance(v.func, ast.Attribute) and v.func.attr == "encode" and isinstance(v.func.value, ast.Name) \
                        and "plain" in v.func.value.id:
                    out.append(tuple(ast.unparse(a) for a in v.args) + tuple("%s=%s" % (k.arg, ast.unparse(k.value)) for k in v.keywords))
                else:
                    out.append(("transform", ast.unparse(v)[:60]))
        return sorted(out)
    e1, e2 = encodes(create), encodes(challenge)
    ctx.ob("hash-input.encoding", challenge, "str plaintext encoded identically", e1 == e2 and len(e1) == 1,
           "both sides encode text with .encode(%s)" % ", ".join(e1[0]) if e1 == e2 and len(e1) == 1 else
           "create encodes text with %s, challenge with %s" % (e1, e2))
    # challenge compares and raises
    okc = False
    for n in g2.nodes:
        if n.kind == "raise":
            for t, tr in dominating_guards(an, challenge, n):
                e = t.ast
                if isinstance(e, ast.Compare) and len(e.ops) == 1 and any(isinstance(x, ast.Attribute) and x.attr == "digest" for x in ast.walk(e)):
                    if (isinstance(e.ops[0], ast.NotEq) and tr) or (isinstance(e.ops[0], ast.Eq) and not tr):
                        okc = True
                if isinstance(e, ast.Call) and ast.unparse(e.func).endswith("compare_digest") and not tr and \
                        any(isinstance(x, ast.Attribute) and x.attr == "digest" for a in e.args for x in ast.walk(a)):
                    okc = True
    ctx.ob("challenge.raises-on-mismatch", challenge, "raise when stored digest != recomputed digest", okc,
           "a mismatch raises" if okc else "challenge no longer raises exactly when the digests differ")
    ft = falls_through(an, challenge) or bool(returns_of(an, challenge))
    ctx.ob("challenge.succeeds-silently", challenge, "normal return on match", ft, "a match returns normally", nontrivial=False)
    # the algorithm used to recompute is the stored one
    usealg = isinstance(hcalls[0].ast.func, ast.Attribute) and hcalls[0].ast.func.attr == "algorithm"
    ctx.ob("challenge.same-algorithm", challenge, hcalls[0].ast.func, usealg, "recomputes with the algorithm stored in the value" if usealg else
           "challenge does not use the stored algorithm", node=hcalls[0])

    # ---------------------------------------------------------------- C09.2 fresh salt
    h = model.method("ChallengeField", "_hash")
    for name in ("_validate", "to_python"):
        f = model.method("ChallengeField", name)
        for n in an.cfg(f).nodes:
            if n.kind == "call" and h in an.callees(f, n):
                salted = len(n.ast.args) > 1 or any(k.arg == "salt" for k in n.ast.keywords)
                ctx.ob("salt.not-supplied", f, n.ast, not salted, "hashes without a fixed salt (a fresh one is drawn)" if not salted else
                       "%s passes a fixed salt: equal secrets get equal salts and digests" % f.qualname, node=n)
    for n in an.cfg(h).nodes:
        if n.kind == "call" and create in an.callees(h, n):
            kws = {k.arg: k.value for k in n.ast.keywords}
            s = kws.get("salt") or (n.ast.args[2] if len(n.ast.args) > 2 else None)
            oks = s is None or all(k == "param" for k, _ in value_sources(h, s, n))
            ctx.ob("salt.forwarded-unchanged", h, n.ast, oks, "_hash hands its (default None) salt on unchanged" if oks else
                   "_hash supplies a salt of its own", node=n)
            p0 = n.ast.args[0] if n.ast.args else kws.get("plaintext")
            okp = p0 is not None and all(k == "param" for k, _ in value_sources(h, p0, n))
            ctx.ob("plaintext.forwarded-unchanged", h, n.ast, okp, "_hash hands the plaintext on unchanged (what is hashed is what challenge() will be given)" if okp else
                   "_hash transforms the plaintext before hashing it (%s) but DigestValue.challenge does not: the assigned secret no longer verifies"
                   % ", ".join(ast.unparse(pl)[:40] for k, pl in value_sources(h, p0, n) if k == "expr"), node=n)
            a1 = kws.get("algorithm") or (n.ast.args[1] if len(n.ast.args) > 1 else None)
            oka = isinstance(a1, ast.Attribute) and a1.attr == "algorithm"
            ctx.ob("algorithm.of-field", h, n.ast, oka, "hashes with the field's algorithm" if oka else "does not hash with the field's algorithm", node=n)
    d = dict(zip([a.arg for a in h.node.args.args][-len(h.node.args.defaults):], h.node.args.defaults)) if h.node.args.defaults else {}
    okdflt = isinstance(d.get("salt"), ast.Constant) and d["salt"].value is None
    ctx.ob("salt.default-none", h, "salt: Optional[bytes] = None", okdflt, "no salt by default" if okdflt else "_hash has a non-None default salt")
    d = dict(zip([a.arg for a in create.node.args.args][-len(create.node.args.defaults):], create.node.args.defaults)) if create.node.args.defaults else {}
    okdflt = isinstance(d.get("salt"), ast.Constant) and d["salt"].value is None
    ctx.ob("salt.default-none", create, "salt: Optional[bytes] = None", okdflt, "no salt by default" if okdflt else "create has a non-None default salt")
    g = an.cfg(create)
    fresh = False
    for n in g.nodes:
        if n.kind == "assign" and isinstance(n.ast, ast.Assign) and isinstance(n.ast.value, ast.Call) and \
                any(e[0] == "URANDOM" for nn in g.nodes_for(n.ast.value) for e in calls.direct(create, nn)):
            arg = n.ast.value.args[0] if n.ast.value.args else None
            size_ok = isinstance(arg, ast.Attribute) and arg.attr == "digest_size"
            guard_ok = any((not tr) and isinstance(t.ast, ast.Name) and "salt" in t.ast.id for t, tr in dominating_guards(an, create, n))
            tgt_ok = any(isinstance(t, ast.Name) and "salt" in t.id for t in n.ast.targets)
            fresh = size_ok and guard_ok and tgt_ok
            ctx.ob("salt.fresh", create, n.ast, fresh,
                   "without a given salt, os.urandom(hasher.digest_size) is drawn per call" if fresh else
                   "the no-salt branch does not draw os.urandom(hasher.digest_size) (size ok: %s, under `not salt`: %s)" % (size_ok, guard_ok), node=n)
    if not fresh:
        ctx.ob("salt.fresh", create, "salt = os.urandom(hasher.digest_size)", False, "create never draws a random salt")

    # ---------------------------------------------------------------- C09.4 codec
    tb, tp = model.method("ChallengeField", "to_basic"), model.method("ChallengeField", "to_python")
    wkeys = set()
    enc_calls = 0
    for r in returns_of(an, tb):
        if isinstance(r.ast.value, ast.Dict):
            for k, v in zip(r.ast.value.keys, r.ast.value.values):
                if isinstance(k, ast.Constant):
                    wkeys.add(k.value)
                    src_attr = [x.attr for x in ast.walk(v) if isinstance(x, ast.Attribute) and x.attr in ("salt", "digest")]
                    okk = src_attr == [k.value] and any(isinstance(x, ast.Call) and ast.unparse(x.func).endswith("b64encode") for x in ast.walk(v))
                    enc_calls += 1
                    ctx.ob("codec.writes-own-component", tb, v, okk, "%r is the base64 of value.%s" % (k.value, k.value) if okk else
                           "key %r is not the base64 of the matching component" % k.value, node=r)
    rkeys = {}
    for x in ast.walk(tp.node):
        if isinstance(x, ast.Subscript) and isinstance(x.slice, ast.Constant) and isinstance(x.slice.value, str):
            par = getattr(x, "_parent", None)
            rkeys[x.slice.value] = isinstance(par, ast.Call) and ast.unparse(par.func).endswith("b64decode")
    ctx.ob("codec.key-sets", tp, "keys written == keys read", wkeys == set(rkeys) == {"salt", "digest"},
           "to_basic writes and to_python reads {salt, digest}" if wkeys == set(rkeys) else "to_basic writes %s, to_python reads %s" % (sorted(wkeys), sorted(rkeys)))
    ctx.ob("codec.inverse-encoding", tp, "b64encode <-> b64decode", all(rkeys.values()) and bool(rkeys),
           "both components are decoded with b64decode" if all(rkeys.values()) and rkeys else "a component is read without base64 decoding")
    # to_python(dict) builds DigestValue(salt, digest, self.algorithm) in that order
    for r in returns_of(an, tp):
        v = r.ast.value
        if isinstance(v, ast.Call) and any(t.kind == "ctor" and t.cls is DV for n in an.cfg(tp).nodes_for(v) for t in an.targets(tp, n)):
            names = [ast.unparse(a) for a in v.args]
            oko = len(names) == 3 and "salt" in names[0] and "digest" in names[1] and "algorithm" in names[2]
            ctx.ob("codec.component-order", tp, v, oko, "DigestValue(salt, digest, algorithm)" if oko else "components rebuilt in the wrong order: %s" % names, node=r)
    # plaintext in a file is hashed: every return taken for a str value is self._hash(value)
    str_rets = []
    for r in returns_of(an, tp):
        if any(tr and isinstance(t.ast, ast.Call) and ast.unparse(t.ast.func) == "isinstance" and "str" in ast.unparse(t.ast.args[1])
               for t, tr in dominating_guards(an, tp, r)):
            str_rets.append(r)
    okh = bool(str_rets) and all(isinstance(r.ast.value, ast.Call) and an.cfg(tp).nodes_for(r.ast.value) and
                                  h in an.callees(tp, an.cfg(tp).nodes_for(r.ast.value)[0]) for r in str_rets)
    bad = [r for r in str_rets if not (isinstance(r.ast.value, ast.Call) and an.cfg(tp).nodes_for(r.ast.value)
                                      and h in an.callees(tp, an.cfg(tp).nodes_for(r.ast.value)[0]))]
    ctx.ob("load.plaintext-hashed", tp, "str -> self._hash(value) on every path", okh, "a plaintext written by hand is always hashed on load" if okh else
           "a plaintext string in a file can be kept/parsed instead of hashed: `%s`" % (ast.unparse(bad[0].ast) if bad else "no str branch"))

    # ---------------------------------------------------------------- C09.5 algorithm table
    try:
        table = model.const_eval(CF.module, CF.class_attrs["ALGORITHMS"], CF)
    except (KeyError, ValueError) as err:
        table = None
    ok = isinstance(table, dict) and len(table) >= 6 and all(isinstance(v, Symbol) and v.name == "hashlib.%s" % k for k, v in table.items())
    expect = {"md5", "sha1", "sha224", "sha256", "sha384", "sha512"}
    ok = ok and set(table) == expect
    ctx.ob("algorithms.table", CF, "ALGORITHMS", ok, "each of the six names maps to hashlib.<name>" if ok else
           "the algorithm table is not name -> hashlib.<name> for the six offered algorithms: %s" % (table,))
    init = model.method("ChallengeField", "__init__")
    rej = any(n.kind == "raise" for n in an.cfg(init).nodes)
    ctx.ob("algorithms.unknown-rejected", init, "unknown algorithm -> raise", rej, "unknown names are rejected" if rej else "unknown algorithm names are accepted")
    # __setdefault__: plaintext default is hashed
    sd = model.method("ChallengeField", "__setdefault__")
    sdv = model.method("Config", "_set_default_value")
    for n in an.cfg(sd).nodes:
        if n.kind == "call" and sdv in an.callees(sd, n) and len(n.ast.args) >= 2:
            t = an.ft(sd).type_at(n, n.ast.args[1])
            okd = is_type(t, {"DigestValue"})
            ctx.ob("default.hashed", sd, n.ast, okd, "the stored default is a DigestValue" if okd else
                   "a plaintext default can be stored unhashed (type %s)" % (t,), node=n)
