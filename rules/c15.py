"""C15 -- every rejection is a validation error that names the offending field's full path."""
from __future__ import annotations

import ast

from engine.defuse import value_sources
from engine.flow import deref, expand_aliases, dominating_guards, reachable_from_entry, same_name_value
from .links import check_links
from engine.flow import returns_of as returns_of_fn

META = {
    "explanation": (
        "Typed exception-escape analysis over the CFG (handlers matched in order, bare `raise` re-raises what the "
        "handler caught, summaries through the call graph): exceptions that originate in a field's protocol "
        "methods (validate/_validate/to_python/to_basic/__setval__ of any Field subclass, everything they reach, "
        "and user callables invoked there) leave Config._set_value, load_tree, to_tree, the environment route of "
        "Field.__setdefault__ and Schema._validate only as ValidationError; converting handlers build the error "
        "from *this* configuration, *the* field whose method was called and the caught exception; "
        "sub-configurations created during a load are linked to parent (and container) before anything is loaded "
        "into them, so the path computed for an error inside is complete; DictProxy errors carry the key."),
    "decided": ["C15.1 ESCAPES: field-origin exceptions leave the five routes only as ValidationError",
                "C15.2 converting handlers name this configuration and that field",
                "C15.3 link typestate NEW_CONFIG -> _parent/_container -> LOAD_TREE (shared with C02/C03)",
                "C15.4 DictProxy errors carry the entry key; ValidationError is a ValueError"],
    "not_decided": ["the rendered path string for every schema shape"],
}

PROTOCOL = ("validate", "_validate", "to_python", "to_basic", "__setval__")


def origin_set(an):
    model = an.model
    Field = model.cls("Field")
    Config = model.cls("Config")
    Schema = model.cls("Schema")
    roots = []
    for c in Field.subclasses():
        for m in PROTOCOL:
            f = c.methods.get(m)
            if f is not None:
                roots.append(f)
    # reachability that does not walk *through* Config/Schema methods: those are routes of their own
    out = set()
    seen = []
    todo = list(roots)
    while todo:
        f = todo.pop()
        if f in seen:
            continue
        seen.append(f)
        if f.cls is not None and (f.cls.is_subclass_of(Config) or f.cls is Schema or f.cls.name == "ValidationError"):
            continue
        out.add(f.qualname)
        for n in an.cfg(f).nodes:
            for g in an.callees(f, n):
                if g not in seen:
                    todo.append(g)
    return out, roots


def check_document_shape(ctx):
    """The functions of the load route that treat a parameter as a mapping (`tree.get`, `tree[k]`, `tree.items()`) are entered
    with a *sub-value of the document* or with a caller's untyped value only under a dominating `isinstance(<that value>,
    dict)`: whatever the document holds where a sub-configuration is declared (a number, a list, a string), the value reaches
    `_set_value`, which rejects it with a ValidationError naming the field, instead of failing with AttributeError on the way."""
    from engine.flow import guard_atoms
    an, model = ctx.an, ctx.model
    Config = model.cls("Config")
    MAPPING_USE = ("get", "items", "keys", "values", "update", "pop", "setdefault")
    consumers = {}
    for nm in ("_process_includes", "load_tree"):
        f = Config.methods.get(nm)
        if f is None:
            continue
        for p_ in f.positional_params[1:]:
            def is_p(nm_, f=f, p_=p_):
                """the parameter, or a local copy of it (an inlined helper's own parameter name)"""
                if nm_.id == p_:
                    return True
                srcs_ = value_sources(f, nm_, None)
                return any(k_ == "param" and pl_ == p_ for k_, pl_ in srcs_)
            used = any(isinstance(x, ast.Attribute) and x.attr in MAPPING_USE and isinstance(x.value, ast.Name) and is_p(x.value)
                       and isinstance(getattr(x, "_parent", None), ast.Call) and x._parent.func is x for x in ast.walk(f.node)) or \
                any(isinstance(x, ast.Subscript) and isinstance(x.value, ast.Name) and is_p(x.value) for x in ast.walk(f.node))
            if used and p_ in ("tree", "value", "data", "document") or (used and nm == "_process_includes" and p_ == f.positional_params[2]):
                consumers[f] = p_
    ctx.need(len(consumers) >= 2, "the mapping-consuming functions of the load route were not found")
    nsites = 0
    for fn in an.fns():
        g = an.cfg(fn)
        for n in g.nodes:
            if n.kind != "call":
                continue
            for t in an.targets(fn, n):
                if t.kind != "fn" or t.fn not in consumers:
                    continue
                arg = an.bind_args(t, fn, n).get(consumers[t.fn])
                if arg is None:
                    continue
                # what is handed in: a sub-value of a mapping / an untyped parameter of the caller (must be tested), the
                # caller's own mapping handed on or a freshly parsed / built document (nothing to test)
                subvalue = isinstance(arg, ast.Subscript) or (isinstance(arg, ast.Call) and isinstance(arg.func, ast.Attribute) and arg.func.attr == "get")
                srcs = value_sources(fn, arg, n) if isinstance(arg, ast.Name) else []
                if isinstance(arg, ast.Name):
                    subvalue = any(k == "expr" and (isinstance(pl, ast.Subscript) or (isinstance(pl, ast.Call) and isinstance(pl.func, ast.Attribute)
                                                                                     and pl.func.attr == "get")) for k, pl in srcs) or \
                        any(k in ("iter", "unpack") for k, pl in srcs)
                    own_param = any(k == "param" for k, pl in srcs)
                    if own_param and fn in consumers and all(k == "param" and pl == consumers[fn] for k, pl in srcs):
                        continue            # the caller's own mapping, handed on
                    if own_param and not subvalue:
                        subvalue = fn.cls is not None and fn.name in ("_set_value", "_validate", "__setitem__", "_adopt_config")
                        if not subvalue:
                            continue        # an API entry point given the whole tree by its caller
                if not subvalue:
                    continue
                nsites += 1
                texts = {ast.unparse(arg)}
                if isinstance(arg, ast.Subscript):
                    texts.add("%s.get(%s)" % (ast.unparse(arg.value), ast.unparse(arg.slice)))
                if isinstance(arg, ast.Call):
                    texts.add("%s[%s]" % (ast.unparse(arg.func.value), ast.unparse(arg.args[0])) if arg.args else "")
                roots = set()
                for k, pl in (srcs if isinstance(arg, ast.Name) else []):
                    if k == "param":
                        roots.add(("param", pl))
                    elif k == "expr" and isinstance(pl, ast.AST) and not (isinstance(pl, ast.Constant) and pl.value is None):
                        texts.add(ast.unparse(pl))
                # the caller specialised for "the value is not a mapping" (and is / is not a configuration): whatever form the test
                # takes -- a branch, a flag combined with others, an early exit -- the call must be unreachable
                from engine.specialize import Spec

                def is_root(x, node, sp):
                    if ast.unparse(x) in texts:
                        return True
                    if isinstance(x, ast.Name):
                        ss = sp.sources(x, node) if sp.rd is not None else value_sources(fn, x, node)
                        ss = [(k, pl) for k, pl in ss if not (k == "expr" and isinstance(pl, ast.Constant) and pl.value is None)]
                        return bool(ss) and all((k == "param" and ("param", pl) in roots) or (k == "expr" and isinstance(pl, ast.AST) and ast.unparse(pl) in texts)
                                                for k, pl in ss)
                    return False
                tested = True
                for is_cfg in (True, False):
                    def decide(e, node, sp, is_cfg=is_cfg):
                        if isinstance(e, ast.Call) and isinstance(e.func, ast.Name) and e.func.id == "isinstance" and len(e.args) == 2 and is_root(e.args[0], node, sp):
                            spec = an.ft(fn).class_spec(e.args[1], {}) or []
                            outs = [False if str(s_).split(".")[-1] in ("dict", "OrderedDict", "Mapping", "MutableMapping") else (is_cfg if s_ == "Config" else None)
                                    for s_ in spec]
                            if outs and any(o is True for o in outs):
                                return True
                            if outs and all(o is False for o in outs):
                                return False
                        return None
                    spx = Spec(an, fn, decide)
                    if n in spx.nodes:
                        tested = False
                ctx.ob("document-shape.mapping-tested", fn, n.ast, tested,
                       "the value is handed to %s only after isinstance(..., dict)" % t.fn.qualname if tested else
                       "%s hands %s to %s, which uses it as a mapping, without testing that it is one: a document with a number, list or string "
                       "where a sub-configuration is declared fails with AttributeError instead of a ValidationError naming the field"
                       % (fn.qualname, ast.unparse(arg)[:40], t.fn.qualname), node=n)
    ctx.need(nsites >= 2, "no call site hands a document sub-value to the mapping-consuming functions: vanished anchors")


def check_field_paths(ctx):
    """A field only knows its place in the schema.  A ValidationError raised from a field method with an explicit ref_path= that is
    built from the *field's* _ref_path (the schema chain) reports `endpoint[1]` for a field that lives in `a.servers[2]`; the
    override has to start from the configuration the method was given (cfg._ref_path / a proxy's owner path) -- or not be given
    at all (the default path is computed from the configuration)."""
    an, model = ctx.an, ctx.model
    Base = model.cls("BaseField")
    n = 0
    for fn in an.fns():
        if fn.cls is None or not fn.cls.is_subclass_of(Base) or isinstance(fn.node, ast.Lambda):
            continue
        for x in ast.walk(fn.node):
            if not (isinstance(x, ast.Call) and isinstance(x.func, ast.Name) and x.func.id == "ValidationError"):
                continue
            if model.enclosing_function(x) is not fn:
                continue
            rp = [k.value for k in x.keywords if k.arg == "ref_path"] + (list(x.args[3:4]) if len(x.args) >= 4 else [])
            for e in rp:
                n += 1
                srcs = [e] + [pl for k_, pl in (value_sources(fn, e, None) if isinstance(e, ast.Name) else []) if k_ == "expr" and isinstance(pl, ast.AST)]
                schema_chain = any(isinstance(y, ast.Attribute) and y.attr in ("_ref_path", "ref_path") and isinstance(y.value, ast.Name)
                                   and y.value.id == fn.self_name for s_ in srcs for y in ast.walk(s_))
                ctx.ob("path.field-override-from-config", fn, x, not schema_chain,
                       "the path override does not start from the field's place in the schema" if not schema_chain else
                       "%s raises a ValidationError whose ref_path is built from the field's own _ref_path (its place in the schema): for a "
                       "field of a list item or of a config type the error names a truncated path" % fn.qualname, node=x)
    if n == 0:
        ctx.ob("path.field-override-from-config", Base, "no field method overrides ref_path", True, "field methods leave the path to the configuration", nontrivial=False)


def check(ctx):
    an, model = ctx.an, ctx.model
    check_field_paths(ctx)
    # shared clause (C01): the path of an entry of a typed dict / list is computed from the proxy's owner -- the proxy a field
    # hands back is the one built for the configuration that is being assigned to, not one that belongs to another configuration
    from .c01 import check_container_validators
    sub0 = type(ctx)(ctx.pid, ctx.an, ctx.tier)
    check_container_validators(sub0)
    ctx.obligations.extend(o for o in sub0.obligations if "container.returns-own-proxy" in o.rule)
    VE = model.cls("ValidationError")
    ctx.ob("validation-error.is-valueerror", VE, "class ValidationError(ValueError)", VE.is_subclass_of("ValueError"),
           "ValidationError derives from ValueError" if VE.is_subclass_of("ValueError") else "ValidationError is no longer a ValueError")
    origins, roots = origin_set(an)
    ctx.need(len(roots) >= 30, "field protocol methods not found")
    Config, Schema, Field = model.cls("Config"), model.cls("Schema"), model.cls("Field")
    proto = set(id(f) for f in roots)
    entries = [model.method("Config", "_set_value"), model.method("Config", "load_tree"), model.method("Config", "to_tree"),
               model.method("Field", "__setdefault__"), model.method("Schema", "_validate")]
    # route functions: everything on Config / Schema, plus the environment route of Field.__setdefault__
    route = [f for f in an.fns() if f.cls is not None and (f.cls.is_subclass_of(Config) or f.cls is Schema)]
    route.append(model.method("Field", "__setdefault__"))
    route_ids = {id(f) for f in route}
    leak = {id(f): frozenset() for f in route}

    def is_start(f, n):
        return any(t.kind == "fn" and id(t.fn) in proto for t in an.targets(f, n))

    def raised_fn(f):
        def raised(n):
            out = set()
            for t in an.targets(f, n):
                if t.kind in ("fn", "ctor") and t.fn is not None:
                    if id(t.fn) in proto:
                        out |= {(ty, o) for ty, o in an.escapes(t.fn)}
                    elif id(t.fn) in route_ids:
                        out |= leak[id(t.fn)]
            return out
        return raised

    changed = True
    rounds = 0
    while changed:
        changed = False
        rounds += 1
        ctx.need(rounds < 50, "C15 leak fix-point does not converge")
        for f in route:
            new = an.escapes_in(f, raised=raised_fn(f))["exit"]
            if not new <= leak[id(f)]:
                leak[id(f)] = leak[id(f)] | new
                changed = True
    nstart = 0

    def is_top(f):
        return not f.name.startswith("_") or (f.name.startswith("__") and f.name.endswith("__")) or f in entries

    def survives(f, n, inj):
        """Follow what leaves f because of start node n upward through route callers; return
        (bad types, function where they get out) for the first externally callable function."""
        res = an.escapes_in(f, start_filter=lambda x: x is n, raised=lambda x: inj)["exit"]
        seen = set()
        todo = [(f, res, [f.qualname])]
        while todo:
            g, types, chain = todo.pop()
            bad = sorted({ty for ty, o in types if not an.is_sub_exc(ty, "ValidationError")})
            if not bad:
                continue
            if is_top(g):
                return bad, chain
            key = (id(g), tuple(sorted(types)))
            if key in seen:
                continue
            seen.add(key)
            for cf, cn in an.callers(g):
                if id(cf) not in route_ids:
                    continue
                r2 = an.escapes_in(cf, start_filter=lambda x, cn=cn: x is cn, raised=lambda x, types=types: set(types))["exit"]
                todo.append((cf, r2, chain + [cf.qualname]))
        return [], []

    for f in route:
        g = an.cfg(f)
        reach = reachable_from_entry(an, f)
        starts = [n for n in g.nodes if n in reach and n.exc is not None and is_start(f, n)]
        nstart += len(starts)
        for n in starts:
            inj = {(ty, o) for t in an.targets(f, n) if t.kind == "fn" and id(t.fn) in proto for ty, o in an.escapes(t.fn)}
            if not inj:
                ctx.ob("escapes", f, n.ast, True, "the field method called here cannot raise", node=n, nontrivial=False)
                continue
            bad, chain = survives(f, n, inj)
            ctx.ob("escapes", f, n.ast if n.ast is not None else n.stmt, not bad,
                   "whatever this field method raises (%s) reaches callers only as ValidationError" % (
                       ", ".join(sorted({ty for ty, _ in inj})[:5])) if not bad else
                   "an exception raised by the field method called here (%s) leaves %s unconverted: the caller sees it "
                   "instead of ValidationError" % (", ".join(bad[:4]), " -> ".join(chain)), node=n)
    ctx.need(nstart >= 5, "fewer than 5 calls of field protocol methods on the routes (%d)" % nstart)
    for f in entries:
        if f.cls is Field:
            continue
        ctx.need(any(is_start(f, n) for h in an.reachable_fns([f]) if id(h) in route_ids for n in an.cfg(h).nodes) or True, "")
        bad = sorted({ty for ty, o in leak[id(f)] if not an.is_sub_exc(ty, "ValidationError")})
        ctx.ob("escapes.route", f, "field-method exceptions leaving %s" % f.qualname, not bad,
               "only ValidationError leaves this route for failures of field methods (through every helper it calls)" if not bad else
               "field-method failures can leave %s as %s" % (f.qualname, bad[:4]))

    # ---------------------------------------------------------------- C15.2 converting handlers
    nconv = 0
    for f in entries:
        cfg_name = f.self_name if f.cls is not None and f.cls.is_subclass_of(model.cls("Config")) else None
        g = an.cfg(f)
        for x in ast.walk(f.node):
            if not isinstance(x, ast.Try):
                continue
            # protocol calls in the try body and their receivers
            recvs = []
            for st in x.body:
                for c in ast.walk(st):
                    if isinstance(c, ast.Call) and isinstance(c.func, ast.Attribute):
                        for n in g.nodes_for(c):
                            if any(t.kind == "fn" and t.fn.qualname in origins and t.fn.name in PROTOCOL for t in an.targets(f, n)) \
                                    or any(cc.name == "_validate_field" for cc in an.callees(f, n)):
                                recvs.append((c, n))
            if not recvs:
                continue
            for h in x.handlers:
                for r in ast.walk(h):
                    if isinstance(r, ast.Raise) and isinstance(r.exc, ast.Call):
                        tg = [n for n in g.nodes_for(r.exc)]
                        if not tg or not all(t.kind == "ctor" and t.cls.name == "ValidationError" for t in an.targets(f, tg[0])):
                            # a converting handler that raises something else
                            ctx.ob("handler.converts-to-validation-error", f, r, False,
                                   "the handler raises %s, not ValidationError" % ast.unparse(r.exc.func), node=r)
                            continue
                        nconv += 1
                        args = r.exc.args
                        ok, why = True, "ValidationError(this configuration, the field whose method failed, the caught exception)"
                        if len(args) < 3:
                            ok, why = False, "ValidationError built without config/field/exception"
                        else:
                            a_cfg, a_field, a_exc = args[0], args[1], args[2]
                            if cfg_name is not None:
                                if not (isinstance(a_cfg, ast.Name) and (a_cfg.id == cfg_name or (
                                        deref(f, a_cfg, None) is not a_cfg and isinstance(deref(f, a_cfg, None), ast.Name) and deref(f, a_cfg, None).id == cfg_name)
                                        or all(k == "param" and p_ == cfg_name for k, p_ in value_sources(f, a_cfg, None)))):
                                    ok, why = False, "the error names configuration %s, not the one being operated on" % ast.unparse(a_cfg)
                            else:
                                # Field.__setdefault__/Schema._validate: the cfg/config parameter
                                if not (isinstance(a_cfg, ast.Name) and all(k == "param" for k, _ in value_sources(f, a_cfg, tg[0]))):
                                    ok, why = False, "the error names configuration %s, not the one passed in" % ast.unparse(a_cfg)
                            if ok:
                                field_ok = False
                                for c, n in recvs:
                                    recv = c.func.value
                                    if isinstance(a_field, ast.Name) and isinstance(recv, ast.Name) and (
                                            a_field.id == recv.id or same_name_value(f, a_field, None, recv, None)):
                                        field_ok = True
                                    if isinstance(a_field, ast.Name) and any(isinstance(a, ast.Name) and (
                                            a.id == a_field.id or same_name_value(f, a_field, None, a, None)) for a in c.args):
                                        field_ok = True     # self._validate_field(config, field)
                                    if isinstance(a_field, ast.Constant) and a_field.value is None:
                                        field_ok = True
                                if not field_ok:
                                    ok, why = False, "the error names field %s, not the field whose method was called (%s)" % (
                                        ast.unparse(a_field), ast.unparse(recvs[0][0].func.value))
                            if ok and h.name and not (isinstance(a_exc, ast.Name) and a_exc.id == h.name):
                                ok, why = False, "the error does not carry the caught exception"
                        ctx.ob("handler.names-config-and-field", f, r, ok, why, node=r)
    ctx.need(nconv >= 1, "no converting handler found on the routes: vanished anchors")

    # ---------------------------------------------------------------- C15.3 links
    check_links(ctx, "link", need_container=True, need_key=True)

    # ---------------------------------------------------------------- C15.3a the path is built from the live parent chain first
    rp0 = model.method("Config", "_ref_path")
    g0_ = an.cfg(rp0)
    static_reads = [n for n in g0_.nodes if n.kind == "attr" and isinstance(n.ast, ast.Attribute) and n.ast.attr == "_ref_path"
                    and isinstance(n.ast.value, ast.Attribute) and n.ast.value.attr == "_schema"]
    parent_reads = [n for n in g0_.nodes if n.kind == "attr" and isinstance(n.ast, ast.Attribute) and n.ast.attr == "_ref_path"
                    and isinstance(n.ast.value, ast.Attribute) and n.ast.value.attr == "_parent"]
    ctx.need(bool(parent_reads), "Config._ref_path no longer climbs through its parent: vanished anchor")
    for n in static_reads:
        okp = any((not tr) and ((isinstance(t.ast, ast.Attribute) and t.ast.attr == "_parent") or
                                (isinstance(t.ast, ast.Compare) and isinstance(t.ast.left, ast.Attribute) and t.ast.left.attr == "_parent"
                                 and isinstance(t.ast.ops[0], ast.IsNot)))
                  or (tr and isinstance(t.ast, ast.Compare) and isinstance(t.ast.left, ast.Attribute) and t.ast.left.attr == "_parent"
                      and isinstance(t.ast.ops[0], ast.Is))
                  for t, tr in dominating_guards(an, rp0, n))
        ctx.ob("path.parent-first", rp0, n.ast, okp,
               "the schema's static path is used only for a configuration without a parent" if okp else
               "the schema's static path wins over the parent configuration's path: item indexes and dynamically attached positions "
               "above this configuration disappear from the reported path", node=n)
    # ---------------------------------------------------------------- C15.3a' user-supplied keys are formatted safely
    for f in an.fns():
        if "ref_path" not in f.name and not (f.cls is not None and f.cls.name == "ValidationError"):
            continue
        for x in ast.walk(f.node):
            if isinstance(x, ast.BinOp) and isinstance(x.op, ast.Mod) and isinstance(x.left, ast.Constant) and isinstance(x.left.value, str) \
                    and not isinstance(x.right, (ast.Tuple, ast.Dict)) and model.enclosing_function(x) is f:
                srcs = value_sources(f, x.right, None) if isinstance(x.right, ast.Name) else [("expr", x.right)]
                risky = [p for k, p in srcs if k in ("param", "iter", "unknown") and p != f.self_name]
                ctx.ob("path.format-total", f, x, not risky,
                       "the single %-argument is not a caller-supplied value" if not risky else
                       "`%s`: a caller-supplied %s is the sole %%-argument -- a tuple key makes the formatting itself raise TypeError, so the "
                       "rejection surfaces as another exception type" % (ast.unparse(x)[:40], risky[0]), nontrivial=bool(risky))
    # ---------------------------------------------------------------- C15.3a'' proxies report the *configuration's* path
    # A field only knows its place in the schema; the configuration knows where it lives (item index, parent chain).  A
    # reference path handed to ValidationError as an override has to start from the owning configuration's _ref_path.
    from engine.specialize import Spec
    for c in model.classes.values():
        f = c.methods.get("_ref_path") if c.node is not None else None
        if f is None or f.is_property or c.name in ("Config", "BaseField") or c.is_subclass_of(model.cls("BaseField")) or c.is_subclass_of(model.cls("Config")):
            continue

        def is_cfg(x, f=f):
            """<self>.cfg, or a local copy of it (the parameter of a helper expanded here)"""
            if isinstance(x, ast.Attribute) and x.attr in ("cfg", "config", "_cfg"):
                return True
            if isinstance(x, ast.Name):
                ss = value_sources(f, x, None)
                return bool(ss) and all(k_ == "expr" and isinstance(p_, ast.Attribute) and p_.attr in ("cfg", "config", "_cfg") for k_, p_ in ss)
            return False

        def owner_expr(e):
            """<self>.cfg._ref_path, or getattr(<self>.cfg, "_ref_path"[, default])"""
            if isinstance(e, ast.Attribute) and e.attr == "_ref_path" and is_cfg(e.value):
                return True
            if isinstance(e, ast.Call) and isinstance(e.func, ast.Name) and e.func.id == "getattr" and len(e.args) >= 2 \
                    and is_cfg(e.args[0]) and isinstance(e.args[1], ast.Constant) and e.args[1].value == "_ref_path":
                return True
            return False

        def is_owner(e, at, f=f):
            if owner_expr(e):
                return True
            if isinstance(e, ast.Name):
                srcs = value_sources(f, e, at)
                return bool(srcs) and all(k == "expr" and isinstance(pl, ast.AST) and owner_expr(pl) for k, pl in srcs)
            return False

        def decide(e, node):
            # the owning configuration has a non-empty path (it is not the root)
            if is_owner(e, node):
                return True
            if isinstance(e, ast.Call) and isinstance(e.func, ast.Name) and e.func.id == "isinstance" and len(e.args) == 2 and is_owner(e.args[0], node):
                return True
            if isinstance(e, ast.Compare) and len(e.ops) == 1 and is_owner(e.left, node) and isinstance(e.comparators[0], ast.Constant):
                cv = e.comparators[0].value
                if cv is None or cv == "":
                    return isinstance(e.ops[0], (ast.IsNot, ast.NotEq))
            return None
        sp = Spec(an, f, decide)
        for r in sp.normal_returns():
            if r.ast.value is None:
                continue
            def mentions_owner(e, at, depth=0, sp=sp):
                """the owner's path is part of what e is computed from (through locals: `field_path = owner_path + '.' + key`)"""
                if depth > 6:
                    return False
                for x in ast.walk(e):
                    if isinstance(x, (ast.Attribute, ast.Call)) and is_owner(x, at):
                        return True
                    if isinstance(x, ast.Name) and isinstance(x.ctx, ast.Load):
                        if is_owner(x, at):
                            return True
                        for k, pl in sp.sources(x, at):
                            if k == "expr" and isinstance(pl, ast.AST) and not isinstance(pl, ast.Name) and pl is not e \
                                    and mentions_owner(pl, sp.where.get(id(pl)) or at, depth + 1):
                                return True
                return False
            uses_owner = mentions_owner(r.ast.value, r)
            ctx.ob("path.proxy-uses-owner-path", f, r.ast, uses_owner,
                   "for a configuration that has a path of its own, the entry path starts from it" if uses_owner else
                   "%s builds the path of an entry from the field's place in the schema only: for a configuration held in a list (or built "
                   "from a config type) the item index / parent chain is missing from the reported path" % f.qualname, node=r)
    # ---------------------------------------------------------------- C15.3a3 items copied between proxies keep their container link
    # _get_item_position answers from the list an item's _container points to.  The "same field, already validated" fast
    # paths copy items from another ListProxy without going through _validate, i.e. without re-pointing _container: the item
    # keeps reporting its index in the *source* list, which the configuration may no longer hold.
    LP = model.cls("ListProxy")
    for mname, f in sorted(LP.methods.items()):
        gf = an.cfg(f)
        for n in gf.nodes:
            if n.kind != "call" or not isinstance(n.ast.func, ast.Attribute) or n.ast.func.attr not in ("__init__", "extend", "__iadd__", "insert", "append", "__setitem__"):
                continue
            recv = n.ast.func.value
            is_super = (isinstance(recv, ast.Call) and isinstance(recv.func, ast.Name) and recv.func.id == "super") or (isinstance(recv, ast.Name) and recv.id == "list")
            if not is_super or not n.ast.args:
                continue
            data = n.ast.args[-1]
            if not isinstance(data, ast.Name):
                continue
            fast = any(tr and isinstance(t.ast, ast.Call) and isinstance(t.ast.func, ast.Name) and t.ast.func.id == "isinstance"
                       and isinstance(t.ast.args[0], ast.Name) and t.ast.args[0].id == data.id
                       and "ListProxy" in (an.ft(f).class_spec(t.ast.args[1], {}) or []) for t, tr in dominating_guards(an, f, n))
            if not fast:
                continue
            relinks = [m for m in gf.nodes if m.kind == "assign" and isinstance(m.ast, ast.Assign) and any(
                isinstance(t, ast.Attribute) and t.attr == "_container" for t in m.ast.targets)]
            after = any(gf.path(n, lambda x, m=m: x is m, may_raise=lambda x: False, from_successors=True) for m in relinks)
            ctx.ob("link.container-follows-items", f, "same-field fast path: items of another ListProxy copied by list.%s" % n.ast.func.attr, after,
                   "configurations copied from another proxy are re-linked to this one" if after else
                   "%s copies the items of another ListProxy as they are: configurations among them keep _container = the source list, so "
                   "their reported index is the one in a list the configuration may no longer hold" % f.qualname, node=n)
    # ---------------------------------------------------------------- C15.3b item position
    # (i) the container link is tested for None-ness, not truthiness: a typed list is falsy while empty,
    #     i.e. exactly while its first item is being loaded
    Config = model.cls("Config")
    rp = model.method("Config", "_ref_path")
    g = an.cfg(rp)
    containers = [c for c in model.classes.values() if c.node is not None and c.is_subclass_of(model.cls("ContainerValueMixin"))
                  and (c.is_subclass_of("list") or c.is_subclass_of("dict"))]
    pos_calls = [n for n in g.nodes if n.kind == "call" and isinstance(n.ast.func, ast.Attribute) and n.ast.func.attr == "_get_item_position"]
    ctx.need(bool(pos_calls), "Config._ref_path no longer asks its container for the item position: vanished anchor")
    for n in pos_calls:
        form = None
        for t, tr in dominating_guards(an, rp, n):
            e = expand_aliases(rp, t.ast, t)       # `container = self._container; if container is None: return`
            if isinstance(e, ast.Attribute) and e.attr == "_container" and tr:
                form = form or "truthiness"
            if isinstance(e, ast.Compare) and isinstance(e.left, ast.Attribute) and e.left.attr == "_container" and \
                    isinstance(e.comparators[0], ast.Constant) and e.comparators[0].value is None and \
                    ((isinstance(e.ops[0], ast.IsNot) and tr) or (isinstance(e.ops[0], ast.Is) and not tr)):
                form = "is not None"
        ok = form == "is not None" or (form == "truthiness" and not containers)
        ctx.ob("path.container-guard", rp, n.ast, ok,
               "the position is looked up whenever a container is linked" if ok else
               ("`if self._container:` is false for an *empty* %s -- the state it is in while its first item is loaded: an error in "
                "item 0 is reported without its index" % containers[0].name if form == "truthiness" else
                "the item position is looked up without checking that a container is linked"), node=n)
    # (ii) _get_item_position answers from the container's own content (index(item), else len(self)), so while a list is
    #      being built from a whole value the items must enter it one by one, interleaved with their validation
    lp = model.cls("ListProxy")
    gip = lp.methods.get("_get_item_position")
    ctx.need(gip is not None, "ListProxy._get_item_position vanished")
    content_based = any(isinstance(x, ast.Call) and ((isinstance(x.func, ast.Attribute) and x.func.attr == "index") or
                                                    (isinstance(x.func, ast.Name) and x.func.id == "len")) for x in ast.walk(gip.node))
    if content_based:
        from .common import STATE
        st = an.summary(STATE)
        init = lp.methods.get("__init__")
        gi = an.cfg(init)
        for n in gi.nodes:
            if n.kind != "call":
                continue
            evs = [e for e in st.direct(init, n) if e[0] == "W_BUILTIN"]
            if not evs or not n.ast.args:
                continue
            a0 = n.ast.args[0]
            validating = any(isinstance(x, ast.Call) and isinstance(x.func, ast.Attribute) and x.func.attr == "_validate" for x in ast.walk(a0))
            if not validating:
                continue
            lazy = isinstance(a0, ast.GeneratorExp)
            in_loop = gi.path(n, lambda x: x is n, may_raise=lambda x: False, from_successors=True) is not None
            ctx.ob("path.items-enter-one-by-one", init, n.ast, lazy or in_loop,
                   "items are validated while the list fills (generator consumed by list.__init__): an error names the index reached" if lazy or in_loop else
                   "all items are validated before any is stored: _get_item_position (index(item) / len(self)) sees an empty list and every "
                   "error is reported at the wrong (or no) index", node=n)

    # ---------------------------------------------------------------- C15.3b' path components are keys, not labels
    # a field has a key (what attribute access, dotted paths and documents use) and an optional friendly `name` (a label for
    # help texts): a reference path is built from keys only
    for fn in an.fns():
        if fn.name not in ("_ref_path", "ref_path") or fn.node is None:
            continue
        for x in ast.walk(fn.node):
            if isinstance(x, ast.Attribute) and x.attr == "name" and isinstance(x.ctx, ast.Load):
                ctx.ob("path.components-are-keys", fn, x, False,
                       "%s builds the reference path from %s -- the field's friendly label, not its key: 'svc.Service Limits[k]' instead of "
                       "'svc.limits[k]'" % (fn.qualname, ast.unparse(x)), node=x)
    ctx.ob("path.components-are-keys", model.cls("DictProxy"), "no .name in any _ref_path", True, "reference paths are built from _key only", nontrivial=False)
    # ... and are computed from the links as they are *now*: a path remembered on the object goes stale when an item moves in its
    # list (insert / pop / reverse) or an ancestor is attached somewhere else -- none of which assigns anything on this object
    npath = 0
    for fn in an.fns():
        if fn.name != "_ref_path" or fn.node is None or fn.cls is None or not fn.self_name:
            continue
        npath += 1
        stores = [x for x in ast.walk(fn.node) if isinstance(x, (ast.Assign, ast.AugAssign, ast.AnnAssign)) and any(
            isinstance(t, ast.Attribute) and isinstance(t.value, ast.Name) and t.value.id == fn.self_name
            for t in (x.targets if isinstance(x, ast.Assign) else [x.target]))]
        remembered = []
        for r in returns_of_fn(an, fn):
            v = r.ast.value
            if v is None:
                continue
            for k, pl in value_sources(fn, v, r):
                if k == "expr" and isinstance(pl, ast.Attribute) and isinstance(pl.value, ast.Name) and pl.value.id == fn.self_name \
                        and pl.attr not in ("_key",) and not pl.attr.endswith("_ref_path"):
                    remembered.append(pl)
        okl = not stores and not remembered
        ctx.ob("path.computed-live", fn, (stores or remembered or [fn.node.name])[0], okl,
               "the path is computed from the live parent / container links on every access" if okl else
               "%s %s: the path handed out can be one computed earlier, before the item moved in its list or an ancestor was re-attached"
               % (fn.qualname, "stores into self.%s" % stores[0].targets[0].attr if stores and isinstance(stores[0], ast.Assign) else
                  "returns the remembered self.%s" % remembered[0].attr if remembered else "keeps state"),
               node=None)
    ctx.need(npath >= 2, "no _ref_path accessor found")

    # ---------------------------------------------------------------- C15.3b'' the position of an item is found by identity
    # two configurations with equal values compare equal (ConfigType.__eq__): list.index(item) names the first of them
    gip = model.method("ListProxy", "_get_item_position")
    by_eq = [x for x in ast.walk(gip.node) if isinstance(x, ast.Call) and isinstance(x.func, ast.Attribute) and x.func.attr in ("index", "count")
             and isinstance(x.func.value, (ast.Name, ast.Call))]
    by_eq += [x for x in ast.walk(gip.node) if isinstance(x, ast.Compare) and any(isinstance(o, (ast.Eq, ast.In)) for o in x.ops)
              and any(isinstance(y, ast.Name) and y.id == gip.positional_params[1] for y in ast.walk(x))]
    by_id = any(isinstance(x, ast.Compare) and any(isinstance(o, ast.Is) for o in x.ops)
                and any(isinstance(y, ast.Name) and y.id == gip.positional_params[1] for y in ast.walk(x)) for x in ast.walk(gip.node))
    ctx.ob("path.item-position-by-identity", gip, (by_eq or [gip.node.name])[0], by_id and not by_eq,
           "the item is looked for by identity" if by_id and not by_eq else
           "ListProxy._get_item_position finds the item by equality (%s): of two list items with equal values the first one is named, an error in "
           "servers[1] is reported as servers[0]" % (ast.unparse(by_eq[0])[:40] if by_eq else "no identity comparison"))

    # ---------------------------------------------------------------- C15.3c a document value is used as a mapping only after it was tested to be one
    check_document_shape(ctx)

    # ---------------------------------------------------------------- C15.4 DictProxy
    dv = model.method("DictProxy", "_validate")
    g = an.cfg(dv)
    raises = []
    for x in ast.walk(dv.node):
        if isinstance(x, ast.Raise) and isinstance(x.exc, ast.Call):
            raises.append(x)
        elif isinstance(x, ast.Raise) and isinstance(x.exc, ast.Name):
            # the error object was built by a helper (inlined) and is raised through a local
            srcs = value_sources(dv, x.exc, None)
            if len(srcs) == 1 and srcs[0][0] == "expr" and isinstance(srcs[0][1], ast.Call):
                r2 = ast.Raise(exc=srcs[0][1], cause=x.cause)
                ast.copy_location(r2, x)
                r2._parent = getattr(x, "_parent", None)
                raises.append(r2)
    ctx.need(len(raises) >= 1, "DictProxy._validate no longer raises for key and value")
    # both component validations are converted (two try blocks, or one loop over (key, value) with one handler)
    vcalls = [n for n in g.nodes if n.kind == "call" and isinstance(n.ast.func, ast.Attribute) and n.ast.func.attr == "validate"]
    ctx.need(len(vcalls) >= 1, "DictProxy._validate no longer validates key and value through their fields")
    kparam = dv.positional_params[1]
    for r in raises:
        kws = {k.arg: k.value for k in r.exc.keywords}
        rp = kws.get("ref_path")
        if rp is None and len(r.exc.args) >= 4:
            rp = r.exc.args[3]
        ok = rp is not None and any(isinstance(x, ast.Name) and (x.id == kparam or all(
            k == "param" and p_ == kparam for k, p_ in (value_sources(dv, x, None) or [("?", None)]))) for x in ast.walk(rp))
        ve = all(t.kind == "ctor" and t.cls.name == "ValidationError" for n in g.nodes_for(r.exc) for t in an.targets(dv, n))
        ctx.ob("dict.error-carries-key", dv, r, ok and ve,
               "the error's reference path includes the entry key" if ok and ve else
               "dict entry errors do not name the key (ref_path missing or not built from the key)", node=r)
    esc = an.escapes(dv)
    bad = sorted({t for t, o in esc if not an.is_sub_exc(t, "ValidationError")})
    ctx.ob("dict.escapes", dv, "DictProxy._validate", not bad,
           "key/value rejections leave only as ValidationError" if not bad else "DictProxy._validate can raise %s" % bad)
