"""C04 -- each file format decodes what it encodes, types intact, and all formats agree."""
from __future__ import annotations

import ast

from engine.defuse import value_sources
from engine.flow import dominating_guards, falls_through, reachable_from_entry, returns_of
from engine.model import Symbol

META = {
    "explanation": (
        "Only the repository's own code is decided (the inverse laws of json, yaml, bson, pickle and minidom on "
        "runtime trees are not): the XML writer and reader use one table of type tags covering the seven plain-data "
        "kinds, each reader branch produces the kind the writer tagged, sub-class tests precede super-class tests "
        "(bool before int), unknown kinds end in raise, list items and map entries are written and read under the "
        "same naming scheme, the boolean literals written are tokens the reader accepts; a wrong XML root tag is "
        "rejected before anything is decoded and the same root_tag is used both ways; the YAML root key is wrapped "
        "and unwrapped under the same option or not at all; every thin wrapper pairs dump/load of one module with "
        "symmetric text encoding and its options influence dumps only; every ConfigFormat subclass is registered "
        "under a distinct name, overrides both directions, and the registry is initialised before lookup."),
    "decided": ["C04.1 XML tag tables agree and cover the 7 kinds", "C04.2 sub-class tests first (bool before int), unknown kinds rejected",
                "C04.3 wrong XML root tag rejected, root_tag symmetric", "C04.4 YAML root key wrap/unwrap symmetric",
                "C04.5 registry complete, distinct names, both directions overridden", "C04.6 wrappers pair dump/load of one module"],
    "not_decided": ["the inverse law of json, yaml, bson, pickle, minidom on runtime trees (value-level)"],
}

KINDS = ["str", "bool", "int", "float", "none", "list", "dict"]


def writer_table(an, f):
    """kind -> (tag, test node) from the isinstance chain of _to_element"""
    g = an.cfg(f)
    ft = an.ft(f)
    vparam = f.positional_params[2]
    out = {}
    order = []
    for t in g.nodes:
        if t.kind != "test":
            continue
        kind = None
        e = t.ast
        if isinstance(e, ast.Call) and ast.unparse(e.func) == "isinstance" and isinstance(e.args[0], ast.Name) and e.args[0].id == vparam:
            spec = ft.class_spec(e.args[1], ft.env_in.get(t) or {})
            if spec and len(spec) == 1:
                kind = spec[0]
        elif isinstance(e, ast.Compare) and isinstance(e.ops[0], ast.Is) and isinstance(e.left, ast.Name) and e.left.id == vparam \
                and isinstance(e.comparators[0], ast.Constant) and e.comparators[0].value is None:
            kind = "none"
        if kind is None:
            continue
        order.append((kind, t))
        for s, lbl in t.succ:
            if lbl is True:
                seen = g.reachable([s], may_raise=lambda n: False, stop=lambda n: n.kind == "test")
                for n in seen:
                    if n.kind == "assign" and isinstance(n.ast, ast.Assign):
                        for tg in n.ast.targets:
                            if isinstance(tg, ast.Subscript) and isinstance(tg.slice, ast.Constant) and tg.slice.value == "type" \
                                    and isinstance(n.ast.value, ast.Constant):
                                out[kind] = (n.ast.value.value, t, seen)
                    if n.kind == "call" and isinstance(n.ast.func, ast.Attribute) and n.ast.func.attr == "set" and len(n.ast.args) == 2 \
                            and isinstance(n.ast.args[0], ast.Constant) and n.ast.args[0].value == "type" and isinstance(n.ast.args[1], ast.Constant):
                        out[kind] = (n.ast.args[1].value, t, seen)
    return out, order


def reader_table(an, f):
    """tag -> set of kinds assigned in that branch of _from_element"""
    g = an.cfg(f)
    out = {}
    for t in g.nodes:
        if t.kind == "test" and isinstance(t.ast, ast.Compare) and isinstance(t.ast.ops[0], ast.Eq) and isinstance(t.ast.comparators[0], ast.Constant) \
                and isinstance(t.ast.comparators[0].value, str) and isinstance(t.ast.left, ast.Name):
            tag = t.ast.comparators[0].value
            kinds = set()
            for s, lbl in t.succ:
                if lbl is True:
                    seen = g.reachable([s], may_raise=lambda n: True, stop=lambda n: n.kind == "test" and isinstance(n.ast, ast.Compare)
                                       and isinstance(n.ast.ops[0], ast.Eq) and isinstance(n.ast.left, ast.Name) and n.ast.left.id == t.ast.left.id)
                    for n in seen:
                        if n.kind == "assign" and isinstance(n.ast, ast.Assign):
                            v = n.ast.value
                            if isinstance(v, ast.Constant):
                                kinds.add({bool: "bool", type(None): "none", str: "str", int: "int", float: "float"}.get(type(v.value), "?"))
                            elif isinstance(v, ast.Name) and v.id == "text":
                                kinds.add("str")
                            elif isinstance(v, ast.Call) and ast.unparse(v.func) in ("int", "float"):
                                kinds.add(ast.unparse(v.func))
                            elif isinstance(v, (ast.List, ast.ListComp)):
                                kinds.add("list")
                            elif isinstance(v, (ast.Dict, ast.DictComp)):
                                kinds.add("dict")
            out[tag] = (kinds, t)
    return out


def check(ctx):
    an, model = ctx.an, ctx.model
    xml = model.cls("XmlConfigFormat")
    te, fe = model.method("XmlConfigFormat", "_to_element"), model.method("XmlConfigFormat", "_from_element")
    wt, order = writer_table(an, te)
    rt = reader_table(an, fe)
    # ---------------------------------------------------------------- C04.1
    for kind in KINDS:
        if kind not in wt:
            ctx.ob("xml.writer-covers", te, "writer branch for %s" % kind, False,
                   "the XML writer has no branch for %s values: they are rejected or written under another kind's tag" % kind)
            continue
        tag = wt[kind][0]
        ctx.ob("xml.writer-covers", te, "writer branch for %s" % kind, True, "%s values are tagged %r" % (kind, tag), node=wt[kind][1])
        if tag not in rt:
            ctx.ob("xml.tags-agree", fe, "reader branch for tag %r" % tag, False,
                   "the writer tags %s values with %r but the reader has no branch for it: they come back as text" % (kind, tag))
            continue
        kinds = rt[tag][0]
        ok = kind in kinds
        ctx.ob("xml.tags-agree", fe, "tag %r: written for %s, read as %s" % (tag, kind, sorted(kinds)), ok,
               "the reader branch for %r produces a %s (lenient text fallbacks allowed)" % (tag, kind) if ok else
               "the reader branch for %r produces %s, never a %s: the type is not preserved" % (tag, sorted(kinds), kind), node=rt[tag][1])
    wtags = sorted(v[0] for v in wt.values())
    ctx.ob("xml.tags-distinct", te, "tags %s" % wtags, len(set(wtags)) == len(wtags), "one tag per kind" if len(set(wtags)) == len(wtags) else
           "two kinds share a tag: %s" % wtags)
    extra = sorted(set(rt) - set(wtags))
    ctx.ob("xml.reader-no-orphans", fe, "reader tags without writer", True, "reader-only tags: %s (harmless)" % extra, nontrivial=False)

    # ---------------------------------------------------------------- C04.2
    g = an.cfg(te)
    for i, (ka, ta) in enumerate(order):
        for kb, tb in order:
            if ka == kb or ka == "none" or kb == "none":
                continue
            if an.types.is_sub(kb, ka) and kb != ka:
                # kb is a subclass of ka: its test must come first
                p = g.path(ta, lambda n, tb=tb: n is tb, may_raise=lambda n: False, from_successors=True)
                ctx.ob("dispatch.subclass-first", te, "isinstance(value, %s) before isinstance(value, %s)" % (kb, ka), p is None,
                       "%s is tested before its base class %s" % (kb, ka) if p is None else
                       "%s is tested after its base class %s: %s values are written as %s" % (kb, ka, kb, ka), node=tb)
    last_raise = falls_through(an, te) is False and any(n.kind == "raise" for n in g.nodes)
    # the raise must be on the path where every test failed
    p = g.path(g.entry, lambda n: n.kind == "raise", may_raise=lambda n: False,
               edge_filter=lambda a, b, lbl: not (a.kind == "test" and lbl is True and any(a is t for _, t in order)))
    ctx.ob("dispatch.rejecting", te, "non-basic value -> raise", p is not None,
           "a value of no plain-data kind ends in raise" if p is not None else "a non-basic value is silently written as something else")
    # naming of children
    okl = okd = False
    for n in g.nodes:
        if n.kind == "call" and te in an.callees(te, n) and n.ast.args:
            a0 = n.ast.args[0]
            if isinstance(a0, ast.Constant) and a0.value == "item":
                okl = True
            if isinstance(a0, ast.Name) and any(k == "iter" for k, _ in value_sources(te, a0, n)):
                okd = True
    gf = an.cfg(fe)
    rd = any(isinstance(x, ast.Assign) and any(isinstance(t, ast.Subscript) and isinstance(t.slice, ast.Attribute) and t.slice.attr == "tag"
                                                 for t in x.targets) for x in ast.walk(fe.node))
    rl = any(isinstance(x, ast.Call) and isinstance(x.func, ast.Attribute) and x.func.attr == "append" for x in ast.walk(fe.node))
    ctx.ob("xml.children-naming", xml, "list items / map entries", okl and okd and rd and rl,
           "map entries are written under their key and read back by tag; list items are appended in document order" if okl and okd and rd and rl else
           "children naming differs between writer and reader (writer list:%s dict:%s, reader dict:%s list:%s)" % (okl, okd, rd, rl))
    # boolean literals are tokens the reader understands
    BF = model.cls("BoolField")
    T = model.const_eval(BF.module, BF.class_attrs["TRUE_VALUES"], BF)
    F = model.const_eval(BF.module, BF.class_attrs["FALSE_VALUES"], BF)
    lits = None
    if "bool" in wt:
        branch = getattr(wt["bool"][1].ast, "_parent", None)
        body = branch.body if isinstance(branch, ast.If) else []
        for st in body:
            for x in ast.walk(st):
                if isinstance(x, ast.Assign) and isinstance(x.value, ast.IfExp) and isinstance(x.value.body, ast.Constant) \
                        and isinstance(x.value.orelse, ast.Constant):
                    lits = (x.value.body.value, x.value.orelse.value)
    lowers = any(isinstance(x, ast.Call) and isinstance(x.func, ast.Attribute) and x.func.attr in ("lower", "casefold") for x in ast.walk(fe.node))
    norm = (lambda x: x.lower()) if lowers else (lambda x: x)
    okb = lits is not None and all(isinstance(x, str) for x in lits) and norm(lits[0]) in T and norm(lits[1]) in F
    ctx.ob("xml.bool-literals", te, "text written for booleans", okb, "writes %r/%r, which the reader maps to True/False" % lits if okb else
           "the boolean text written (%s) is not what the reader maps back to True/False" % (lits,))

    # string payload is written and read unmodified
    from engine.defuse import reaching_defs
    rdefs = reaching_defs(fe)
    gfe = an.cfg(fe)
    for tag, (kinds, tnode) in rt.items():
        if tag != wt.get("str", (None,))[0]:
            continue
        for s2, lbl in tnode.succ:
            if lbl is not True:
                continue
            for n in gfe.reachable([s2], may_raise=lambda x: False, stop=lambda x: x.kind == "test"):
                if n.kind == "assign" and isinstance(n.ast, ast.Assign) and isinstance(n.ast.value, ast.Name):
                    bad = None
                    for d in rdefs.reaching(n, n.ast.value.id):
                        v = d.value
                        if d.kind != "assign" or v is None:
                            bad = "unknown origin"
                            continue
                        is_text = any(isinstance(x, ast.Attribute) and x.attr == "text" for x in ast.walk(v)) and not any(
                            isinstance(x, ast.Call) for x in ast.walk(v))
                        is_empty = isinstance(v, ast.Constant) and v.value == ""
                        if is_text:
                            continue
                        if is_empty:
                            guards = dominating_guards(an, fe, d.node)
                            okg = any((isinstance(t.ast, ast.Name) and not tr) or
                                      (isinstance(t.ast, ast.Compare) and isinstance(t.ast.ops[0], ast.Is) and tr) for t, tr in guards)
                            if okg:
                                continue
                            bad = "replaced by '' at line %s under a condition other than 'no text'" % d.node.lineno
                        else:
                            bad = "transformed by `%s`" % ast.unparse(v)[:40]
                    ctx.ob("xml.str-payload-verbatim", fe, n.ast, bad is None,
                           "a string element decodes to its text exactly ('' when the element has none)" if bad is None else
                           "the text of a string element is %s before it becomes the value: strings do not survive the round trip" % bad, node=n)
    for n in g.nodes:
        if n.kind == "assign" and isinstance(n.ast, ast.Assign) and any(isinstance(t, ast.Attribute) and t.attr == "text" for t in n.ast.targets):
            if "str" in wt and n in wt["str"][2]:
                okw = all(k == "param" for k, _ in value_sources(te, n.ast.value, n))
                ctx.ob("xml.str-payload-verbatim", te, n.ast, okw, "a string is written as the element text unchanged" if okw else
                       "the writer transforms string values before writing them", node=n)

    # ---------------------------------------------------------------- C04.3
    loads, dumps = model.method("XmlConfigFormat", "loads"), model.method("XmlConfigFormat", "dumps")
    g = an.cfg(loads)
    dec = [n for n in g.nodes if n.kind == "call" and fe in an.callees(loads, n)]
    ctx.need(bool(dec), "XmlConfigFormat.loads no longer decodes through _from_element")
    for n in dec:
        okr = False
        for t, tr in dominating_guards(an, loads, n):
            e = t.ast
            if isinstance(e, ast.Compare) and len(e.ops) == 1 and any(isinstance(x, ast.Attribute) and x.attr == "tag" for x in ast.walk(e)) \
                    and any(isinstance(x, ast.Attribute) and x.attr == "root_tag" for x in ast.walk(e)):
                if (isinstance(e.ops[0], ast.NotEq) and not tr) or (isinstance(e.ops[0], ast.Eq) and tr):
                    # and the other edge raises
                    for s, lbl in t.succ:
                        if lbl is (not tr) and (s.kind == "raise" or g.path(s, lambda x: x.kind == "raise", may_raise=lambda x: False, stop=lambda x: x.kind == "test")):
                            okr = True
        ctx.ob("xml.root-tag-checked", loads, n.ast, okr, "decoding starts only when root.tag == self.root_tag; otherwise raise" if okr else
               "a document with the wrong root tag is decoded anyway", node=n)
        forced = len(n.ast.args) >= 2 and isinstance(n.ast.args[1], ast.Constant) and n.ast.args[1].value == wt.get("dict", (None,))[0]
        ctx.ob("xml.root-is-map", loads, n.ast, forced, "the root element is decoded as a map" if forced else "the root element is not decoded as a map", node=n)
    gd = an.cfg(dumps)
    okw = any(n.kind == "call" and te in an.callees(dumps, n) and n.ast.args and isinstance(n.ast.args[0], ast.Attribute) and n.ast.args[0].attr == "root_tag"
              for n in gd.nodes)
    ctx.ob("xml.root-tag-symmetric", dumps, "_to_element(self.root_tag, tree)", okw, "the writer uses the same root_tag the reader checks" if okw else
           "the writer does not use self.root_tag for the root element")

    # ---------------------------------------------------------------- C04.4 YAML
    yd, yl = model.method("YamlConfigFormat", "dumps"), model.method("YamlConfigFormat", "loads")
    wrap = [x for x in ast.walk(yd.node) if isinstance(x, ast.Dict) and len(x.keys) == 1 and isinstance(x.keys[0], ast.Attribute) and x.keys[0].attr == "root_key"]
    unwrap = [x for x in ast.walk(yl.node) if isinstance(x, ast.Subscript) and isinstance(x.slice, ast.Attribute) and x.slice.attr == "root_key"]
    sym = bool(wrap) == bool(unwrap)
    ctx.ob("yaml.root-key-symmetric", yl, "wrap in dumps <-> unwrap in loads", sym,
           ("root_key wraps the tree on dumps and is unwrapped on loads" if wrap else "no root key handling on either side") if sym else
           "the YAML root key is %s" % ("wrapped on dumps but never unwrapped on loads" if wrap else "unwrapped on loads but never written"))
    if wrap:
        gy = an.cfg(yd)
        okg = False
        for n in gy.nodes:
            if n.kind == "assign" and any(w is n.ast.value for w in wrap):
                okg = any(tr and isinstance(t.ast, ast.Attribute) and t.ast.attr == "root_key" for t, tr in dominating_guards(an, yd, n))
        ctx.ob("yaml.wrap-only-with-root-key", yd, wrap[0], okg, "wrapping happens only when a root key is configured" if okg else
               "the tree is wrapped although no root key is configured")
        # the wrapped tree is what is dumped
        okd = False
        for n in gy.nodes:
            if n.kind == "call" and ast.unparse(n.ast.func).endswith("dump") and n.ast.args:
                srcs = value_sources(yd, n.ast.args[0], n)
                okd = any(k == "expr" and pl is wrap[0] for k, pl in srcs) and any(k == "param" for k, pl in srcs)
        ctx.ob("yaml.dumps-wrapped-tree", yd, "yaml.dump(tree)", okd, "dumps serialises the (possibly wrapped) tree" if okd else "dumps does not serialise the wrapped tree")
    if unwrap:
        gl = an.cfg(yl)
        for n in gl.nodes:
            if n.kind == "subscript" and n.ast in unwrap:
                okg = any(tr and isinstance(t.ast, ast.Attribute) and t.ast.attr == "root_key" for t, tr in dominating_guards(an, yl, n))
                ctx.ob("yaml.unwrap-only-with-root-key", yl, n.ast, okg, "unwrapping happens only when a root key is configured" if okg else
                       "loads indexes the document by root_key although none is configured", node=n)
        for r in returns_of(an, yl):
            srcs = value_sources(yl, r.ast.value, r)
            okr = any(k == "expr" and pl in unwrap for k, pl in srcs)
            ctx.ob("yaml.returns-unwrapped", yl, r.ast, okr, "returns the unwrapped tree when a root key is configured" if okr else
                   "the unwrapped tree is computed but not returned", node=r)

    # ---------------------------------------------------------------- C04.5 registry
    CF = model.cls("ConfigFormat")
    fm = model.module("formats")
    table = model.module_const(fm, "FORMATS")
    reg = {}
    for name, sym_ in table:
        reg.setdefault(name, []).append(sym_.name if isinstance(sym_, Symbol) else sym_)
    classes = [c for c in CF.subclasses(strict=True)]
    ctx.need(len(classes) >= 5, "fewer than 5 ConfigFormat subclasses found")
    names = [n for n, _ in table]
    ctx.ob("registry.distinct-names", fm.classes.get("x", CF), "FORMATS names %s" % names, len(set(names)) == len(names),
           "every format has its own name" if len(set(names)) == len(names) else "two formats are registered under one name: %s" % names)
    registered = {v for vs in reg.values() for v in vs}
    for c in classes:
        ctx.ob("registry.complete", c, "%s in FORMATS" % c.name, c.name in registered, "registered" if c.name in registered else
               "%s is not registered: ConfigFormat.get cannot find it" % c.name)
        for m in ("dumps", "loads"):
            ctx.ob("registry.overrides", c, "%s.%s" % (c.name, m), m in c.methods, "overrides %s" % m if m in c.methods else
                   "%s inherits ConfigFormat.%s (raises NotImplementedError)" % (c.name, m))
    expected = {"json": "JsonConfigFormat", "yaml": "YamlConfigFormat", "bson": "BsonConfigFormat", "xml": "XmlConfigFormat", "pickle": "PickleConfigFormat"}
    for n, cn in expected.items():
        ok = reg.get(n) == [cn]
        ctx.ob("registry.name-to-class", CF, "%r -> %s" % (n, cn), ok, "format name %r selects %s" % (n, cn) if ok else
               "format name %r selects %s" % (n, reg.get(n)))
    get = model.method("ConfigFormat", "get")
    g = an.cfg(get)
    init_calls = {n for n in g.nodes if any(c.name == "initialize_registry" for c in an.callees(get, n))}
    lookups = [n for n in g.nodes if n.kind == "subscript"]
    ok = bool(init_calls) and bool(lookups)
    for lk in lookups:
        # the lookup is reached only with the registry initialised: through the init call or with the flag set
        p = g.path(g.entry, lambda n: n is lk, may_raise=lambda n: False,
                   stop=lambda n: n in init_calls,
                   edge_filter=lambda a, b, lbl: not (a.kind == "test" and "initialized" in ast.unparse(a.ast) and lbl is True))
        ok = ok and p is None
    ctx.ob("registry.initialised-before-lookup", get, "initialize_registry() before the lookup", ok,
           "the built-in formats are registered before the first lookup" if ok else "ConfigFormat.get can look a name up before the registry is initialised")
    ir = model.method("ConfigFormat", "initialize_registry")
    uses_formats = any(isinstance(x, ast.Name) and x.id == "FORMATS" for x in ast.walk(ir.node))
    ctx.ob("registry.uses-table", ir, "for name, cls in FORMATS", uses_formats, "the registry is filled from FORMATS" if uses_formats else
           "initialize_registry does not read FORMATS")

    # ---------------------------------------------------------------- C04.6 wrappers
    pairs = {"JsonConfigFormat": ("json", "dumps", "loads"), "BsonConfigFormat": ("bson", "dumps", "loads"),
             "PickleConfigFormat": ("pickle", "dumps", "loads"), "YamlConfigFormat": ("yaml", "dump", "load")}
    for cn, (mod, dn, ln) in pairs.items():
        c = model.cls(cn)
        d, l = c.methods.get("dumps"), c.methods.get("loads")
        if d is None or l is None:
            continue
        dc = [x for x in ast.walk(d.node) if isinstance(x, ast.Call) and isinstance(x.func, ast.Attribute) and isinstance(x.func.value, ast.Name)
              and x.func.value.id == mod]
        lc = [x for x in ast.walk(l.node) if isinstance(x, ast.Call) and isinstance(x.func, ast.Attribute) and isinstance(x.func.value, ast.Name)
              and x.func.value.id == mod]
        ok = len(dc) == 1 and len(lc) == 1 and dc[0].func.attr.replace("safe_", "") == dn and lc[0].func.attr.replace("safe_", "") == ln
        ctx.ob("wrapper.pair", c, "%s.%s <-> %s.%s" % (mod, dn, mod, ln), ok, "encodes and decodes with the same library" if ok else
               "%s does not pair %s.%s with %s.%s" % (cn, mod, dn, mod, ln))
        enc = any(isinstance(x, ast.Call) and isinstance(x.func, ast.Attribute) and x.func.attr == "encode" for x in ast.walk(d.node))
        decd = any(isinstance(x, ast.Call) and isinstance(x.func, ast.Attribute) and x.func.attr == "decode" for x in ast.walk(l.node))
        ctx.ob("wrapper.text-encoding", c, "encode() <-> decode()", enc == decd, "text encoding is symmetric" if enc == decd else
               "%s encodes on one side only" % cn)
        # what is handed to the library on dumps is the tree parameter (possibly wrapped); on loads the content
        if dc:
            a0 = dc[0].args[0] if dc[0].args else None
            okt = a0 is not None and isinstance(a0, ast.Name) and any(k == "param" and p == d.positional_params[2] for k, p in value_sources(d, a0, None))
            ctx.ob("wrapper.dumps-the-tree", d, dc[0], okt, "serialises the tree it was given" if okt else "does not serialise the tree parameter")
        # options must not influence loads (except the YAML root key handled above)
        opts = {x.attr for x in ast.walk(l.node) if isinstance(x, ast.Attribute) and isinstance(x.value, ast.Name) and x.value.id == l.self_name}
        opts -= {"root_key"}
        ctx.ob("wrapper.options-dont-change-decoding", l, "self.<option> used in loads: %s" % sorted(opts), not opts,
               "decoding does not depend on formatting options" if not opts else "decoding depends on %s" % sorted(opts))
        if cn == "YamlConfigFormat" and dc and lc:
            kw_d = {k.arg: ast.unparse(k.value) for k in dc[0].keywords}
            kw_l = {k.arg: ast.unparse(k.value) for k in lc[0].keywords}
            dd, ll = kw_d.get("Dumper", ""), kw_l.get("Loader", "")
            okp = dd.replace("Dumper", "") == ll.replace("Loader", "") and bool(ll)
            ctx.ob("wrapper.yaml-dumper-loader", c, "Dumper=%s / Loader=%s" % (dd, ll), okp, "matching Dumper/Loader pair" if okp else
                   "Dumper %s and Loader %s are not a matching pair" % (dd, ll))
    jd = model.method("JsonConfigFormat", "dumps")
    pretty_uses = [x for x in ast.walk(jd.node) if isinstance(x, ast.Attribute) and x.attr == "pretty"]
    ok = all(isinstance(getattr(getattr(x, "_parent", None), "_parent", None), ast.keyword) and x._parent._parent.arg == "indent" or
             isinstance(getattr(x, "_parent", None), ast.keyword) and x._parent.arg == "indent" for x in pretty_uses)
    ctx.ob("wrapper.json-pretty-only-indent", jd, "self.pretty", ok and bool(pretty_uses), "the pretty option only selects the indent" if ok else
           "the pretty option influences more than indentation")
