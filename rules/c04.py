"""C04 -- each file format decodes what it encodes, types intact, and all formats agree."""
from __future__ import annotations

import ast

from engine.defuse import value_sources
from engine.flow import dominating_guards, falls_through, reachable_from_entry, returns_of
from engine.model import Symbol

META = {
    "explanation": (
        "Only the repository's own code is decided (the inverse laws of json, yaml, bson, pickle and minidom on "
        "runtime trees are not): the XML writer and reader use one table of type tags covering the seven plain-data "
        "kinds, each reader branch produces the kind the writer tagged, sub-class tests precede super-class tests "
        "(bool before int), unknown kinds end in raise, list items and map entries are written and read under the "
        "same naming scheme, the boolean literals written are tokens the reader accepts; a wrong XML root tag is "
        "rejected before anything is decoded and the same root_tag is used both ways; the YAML root key is wrapped "
        "and unwrapped under the same option or not at all; every thin wrapper pairs dump/load of one module with "
        "symmetric text encoding and its options influence dumps only; every ConfigFormat subclass is registered "
        "under a distinct name, overrides both directions, and the registry is initialised before lookup."),
    "decided": ["C04.1 XML tag tables agree and cover the 7 kinds", "C04.2 sub-class tests first (bool before int), unknown kinds rejected",
                "C04.3 wrong XML root tag rejected, root_tag symmetric", "C04.4 YAML root key wrap/unwrap symmetric",
                "C04.5 registry complete, distinct names, both directions overridden", "C04.6 wrappers pair dump/load of one module"],
    "not_decided": ["the inverse law of json, yaml, bson, pickle, minidom on runtime trees (value-level)"],
}

KINDS = ["str", "bool", "int", "float", "none", "list", "dict"]


def check(ctx):
    an, model = ctx.an, ctx.model
    xml = model.cls("XmlConfigFormat")
    te, fe = model.method("XmlConfigFormat", "_to_element"), model.method("XmlConfigFormat", "_from_element")
    from .xmlfmt import check_xml_tables
    wtag, wspec, rspec = check_xml_tables(ctx, an, model)
    g = an.cfg(te)
    # boolean literals are tokens the reader understands
    BF = model.cls("BoolField")
    T = model.const_eval(BF.module, BF.class_attrs["TRUE_VALUES"], BF)
    F = model.const_eval(BF.module, BF.class_attrs["FALSE_VALUES"], BF)
    lits = None
    spb = wspec.get("bool")
    if spb is not None and "bool" in wtag:
        for n in g.nodes:
            if n.kind == "assign" and n in spb.normal and isinstance(n.ast, ast.Assign) and any(
                    isinstance(t, ast.Attribute) and t.attr == "text" for t in n.ast.targets):
                v = n.ast.value
                if isinstance(v, ast.IfExp) and isinstance(v.body, ast.Constant) and isinstance(v.orelse, ast.Constant):
                    lits = (v.body.value, v.orelse.value)
                    if isinstance(v.test, ast.UnaryOp) and isinstance(v.test.op, ast.Not):
                        lits = (lits[1], lits[0])
                elif isinstance(v, ast.Call) and isinstance(v.func, ast.Attribute) and v.func.attr == "lower" and isinstance(v.func.value, ast.Call) \
                        and ast.unparse(v.func.value.func) == "str":
                    lits = ("true", "false")
    if lits is None and "bool" in wtag:
        # the text by specialisation: the writer for "a bool that is true" / "a bool that is false"
        from engine.specialize import Spec
        from .xmlfmt import writer_decider, text_writes
        vparam_ = te.positional_params[2]
        base_ = writer_decider(an, te, vparam_, "bool")
        got = []
        for truth in (True, False):
            def dec(e, node, truth=truth):
                if isinstance(e, ast.Name) and e.id == vparam_:
                    return truth
                if isinstance(e, ast.Compare) and len(e.ops) == 1 and isinstance(e.left, ast.Name) and e.left.id == vparam_ \
                        and isinstance(e.comparators[0], ast.Constant) and isinstance(e.comparators[0].value, bool) and isinstance(e.ops[0], (ast.Is, ast.Eq)):
                    return truth == e.comparators[0].value
                return base_(e, node)
            spx = Spec(an, te, dec)
            vals = set()
            for n, v in text_writes(spx, te):
                for k, p_ in spx.sources(v, n):
                    vals.add(p_.value if k == "expr" and isinstance(p_, ast.Constant) else None)
            got.append(vals.pop() if len(vals) == 1 else None)
        if all(isinstance(x, str) for x in got):
            lits = (got[0], got[1])
    lowers = any(isinstance(x, ast.Call) and isinstance(x.func, ast.Attribute) and x.func.attr in ("lower", "casefold") for x in ast.walk(fe.node))
    norm = (lambda x: x.lower()) if lowers else (lambda x: x)
    okb = lits is not None and all(isinstance(x, str) for x in lits) and norm(lits[0]) in T and norm(lits[1]) in F
    ctx.ob("xml.bool-literals", te, "text written for booleans", okb, "writes %r/%r, which the reader maps to True/False" % lits if okb else
           "the boolean text written (%s) is not what the reader maps back to True/False" % (lits,))

    # string payload is written and read unmodified
    sps = wspec.get("str")
    if sps is not None and "str" in wtag:
        seen_text = False
        from .xmlfmt import text_writes
        for n, tv in text_writes(sps, te):
            if True:
                seen_text = True
                srcs = []
                for k, p_ in sps.sources(tv, n):
                    if k == "expr" and isinstance(p_, ast.Call) and isinstance(p_.func, ast.Name) and p_.func.id == "str" and len(p_.args) == 1 and not p_.keywords:
                        srcs += sps.sources(p_.args[0], sps.where.get(id(p_)) or n)      # str() of a str is the string itself
                    else:
                        srcs.append((k, p_))
                okw = bool(srcs) and all(k == "param" for k, _ in srcs)
                ctx.ob("xml.str-payload-verbatim", te, n.ast, okw, "a string is written as the element text unchanged" if okw else
                       "the writer transforms string values before writing them", node=n)
        if not seen_text:
            ctx.ob("xml.str-payload-verbatim", te, "ele.text = value", False, "a string value is never written as the element text")
    # scalar payloads: what is written for int/float is str(value)
    for kind in ("int", "float"):
        spk = wspec.get(kind)
        if spk is None or kind not in wtag:
            continue
        for n in g.nodes:
            if n.kind == "assign" and n in spk.normal and isinstance(n.ast, ast.Assign) and any(
                    isinstance(t, ast.Attribute) and t.attr == "text" for t in n.ast.targets):
                v = n.ast.value
                srcs = spk.sources(v, n)
                okw = all(k == "expr" and isinstance(p, ast.Call) and isinstance(p.func, ast.Name) and p.func.id in ("str", "repr") and len(p.args) == 1
                          and all(k2 == "param" for k2, _ in spk.sources(p.args[0], n)) for k, p in srcs) and bool(srcs)
                ctx.ob("xml.scalar-payload", te, n.ast, okw, "%s values are written as str(value), which %s() parses back" % (kind, kind) if okw else
                       "the text written for %s values is not str(value)" % kind, node=n)

    # ---------------------------------------------------------------- C04.3
    loads, dumps = model.method("XmlConfigFormat", "loads"), model.method("XmlConfigFormat", "dumps")
    g = an.cfg(loads)
    dec = [n for n in g.nodes if n.kind == "call" and fe in an.callees(loads, n)]
    ctx.need(bool(dec), "XmlConfigFormat.loads no longer decodes through _from_element")
    for n in dec:
        okr = False
        for t, tr in dominating_guards(an, loads, n):
            e = t.ast
            if isinstance(e, ast.Compare) and len(e.ops) == 1 and any(isinstance(x, ast.Attribute) and x.attr == "tag" for x in ast.walk(e)) \
                    and any(isinstance(x, ast.Attribute) and x.attr == "root_tag" for x in ast.walk(e)):
                if (isinstance(e.ops[0], ast.NotEq) and not tr) or (isinstance(e.ops[0], ast.Eq) and tr):
                    # and the other edge raises
                    for s, lbl in t.succ:
                        if lbl is (not tr) and (s.kind == "raise" or g.path(s, lambda x: x.kind == "raise", may_raise=lambda x: False, stop=lambda x: x.kind == "test")):
                            okr = True
        ctx.ob("xml.root-tag-checked", loads, n.ast, okr, "decoding starts only when root.tag == self.root_tag; otherwise raise" if okr else
               "a document with the wrong root tag is decoded anyway", node=n)
        from .xmlfmt import cval
        forced_e = n.ast.args[1] if len(n.ast.args) >= 2 else next((k.value for k in n.ast.keywords if k.arg in ("py_type", "type_name")), None)
        forced = forced_e is not None and cval(loads, forced_e) == wtag.get("dict")
        ctx.ob("xml.root-is-map", loads, n.ast, forced, "the root element is decoded as a map" if forced else "the root element is not decoded as a map", node=n)
    gd = an.cfg(dumps)
    okw = any(n.kind == "call" and te in an.callees(dumps, n) and n.ast.args and isinstance(n.ast.args[0], ast.Attribute) and n.ast.args[0].attr == "root_tag"
              for n in gd.nodes)
    ctx.ob("xml.root-tag-symmetric", dumps, "_to_element(self.root_tag, tree)", okw, "the writer uses the same root_tag the reader checks" if okw else
           "the writer does not use self.root_tag for the root element")

    # ---------------------------------------------------------------- C04.4 YAML
    from .xmlfmt import check_yaml_root
    check_yaml_root(ctx, an, model)

    # ---------------------------------------------------------------- C04.5 registry
    CF = model.cls("ConfigFormat")
    fm = model.module("formats")
    table = model.module_const(fm, "FORMATS")
    reg = {}
    for name, sym_ in table:
        reg.setdefault(name, []).append(sym_.name if isinstance(sym_, Symbol) else sym_)
    classes = [c for c in CF.subclasses(strict=True)]
    ctx.need(len(classes) >= 5, "fewer than 5 ConfigFormat subclasses found")
    names = [n for n, _ in table]
    ctx.ob("registry.distinct-names", fm.classes.get("x", CF), "FORMATS names %s" % names, len(set(names)) == len(names),
           "every format has its own name" if len(set(names)) == len(names) else "two formats are registered under one name: %s" % names)
    registered = {v for vs in reg.values() for v in vs}
    # further tables of the formats module that initialize_registry reads (a table of wrapper formats next to FORMATS)
    ir0 = model.method("ConfigFormat", "initialize_registry")
    for x in ast.walk(ir0.node):
        if isinstance(x, ast.Name) and x.id != "FORMATS" and x.id in fm.assigns:
            try:
                extra = model.module_const(fm, x.id)
            except (ValueError, KeyError):
                continue
            for row in (extra if isinstance(extra, (list, tuple)) else []):
                for cell in (row if isinstance(row, (list, tuple)) else [row]):
                    if isinstance(cell, Symbol) or hasattr(cell, "name"):
                        registered.add(str(cell.name).split(".")[-1])
        # (a short new table is written out row by row: the class is then named in a registering call)
        par = getattr(x, "_parent", None)
        if isinstance(x, ast.Name) and isinstance(x.ctx, ast.Load) and x.id in model.classes and model.classes[x.id].is_subclass_of(CF) and (
                (isinstance(par, ast.Call) and x in par.args) or (isinstance(par, ast.Assign) and par.value is x)):
            registered.add(x.id)        # handed to a registering call / stored into a class-level table
    for c in classes:
        ctx.ob("registry.complete", c, "%s in FORMATS" % c.name, c.name in registered, "registered" if c.name in registered else
               "%s is not registered: ConfigFormat.get cannot find it" % c.name)
        for m in ("dumps", "loads"):
            ctx.ob("registry.overrides", c, "%s.%s" % (c.name, m), m in c.methods, "overrides %s" % m if m in c.methods else
                   "%s inherits ConfigFormat.%s (raises NotImplementedError)" % (c.name, m))
    expected = {"json": "JsonConfigFormat", "yaml": "YamlConfigFormat", "bson": "BsonConfigFormat", "xml": "XmlConfigFormat", "pickle": "PickleConfigFormat"}
    for n, cn in expected.items():
        ok = reg.get(n) == [cn]
        ctx.ob("registry.name-to-class", CF, "%r -> %s" % (n, cn), ok, "format name %r selects %s" % (n, cn) if ok else
               "format name %r selects %s" % (n, reg.get(n)))
    get = model.method("ConfigFormat", "get")
    g = an.cfg(get)
    init_calls = {n for n in g.nodes if any(c.name == "initialize_registry" for c in an.callees(get, n))}
    lookups = [n for n in g.nodes if n.kind == "subscript" or (
        n.kind == "call" and isinstance(n.ast.func, ast.Attribute) and n.ast.func.attr == "get" and isinstance(n.ast.func.value, ast.Attribute)
        and isinstance(n.ast.func.value.value, ast.Name) and n.ast.func.value.value.id == get.self_name)]       # TABLE[name] / TABLE.get(name)
    ok = bool(init_calls) and bool(lookups)
    for lk in lookups:
        # the lookup is reached only with the registry initialised: through the init call or with the flag set
        p = g.path(g.entry, lambda n: n is lk, may_raise=lambda n: False,
                   stop=lambda n: n in init_calls,
                   edge_filter=lambda a, b, lbl: not (a.kind == "test" and "initialized" in ast.unparse(a.ast) and lbl is True))
        ok = ok and p is None
    ctx.ob("registry.initialised-before-lookup", get, "initialize_registry() before the lookup", ok,
           "the built-in formats are registered before the first lookup" if ok else "ConfigFormat.get can look a name up before the registry is initialised")
    ir = model.method("ConfigFormat", "initialize_registry")
    uses_formats = any(isinstance(x, ast.Name) and x.id == "FORMATS" for x in ast.walk(ir.node))
    ctx.ob("registry.uses-table", ir, "for name, cls in FORMATS", uses_formats, "the registry is filled from FORMATS" if uses_formats else
           "initialize_registry does not read FORMATS")

    from .xmlfmt import check_documents_verbatim, check_get_constructs
    check_get_constructs(ctx, an, model)
    check_documents_verbatim(ctx, an, model)
    from .xmlfmt import check_xml_output_validated
    check_xml_output_validated(ctx, an, model)
    # ---------------------------------------------------------------- C04.6 wrappers
    pairs = {"JsonConfigFormat": ("json", "dumps", "loads"), "BsonConfigFormat": ("bson", "dumps", "loads"),
             "PickleConfigFormat": ("pickle", "dumps", "loads"), "YamlConfigFormat": ("yaml", "dump", "load")}
    for cn, (mod, dn, ln) in pairs.items():
        c = model.cls(cn)
        d, l = c.methods.get("dumps"), c.methods.get("loads")
        if d is None or l is None:
            continue
        dc = [x for x in ast.walk(d.node) if isinstance(x, ast.Call) and isinstance(x.func, ast.Attribute) and isinstance(x.func.value, ast.Name)
              and x.func.value.id == mod]
        lc = [x for x in ast.walk(l.node) if isinstance(x, ast.Call) and isinstance(x.func, ast.Attribute) and isinstance(x.func.value, ast.Name)
              and x.func.value.id == mod]
        ok = len(dc) == 1 and len(lc) == 1 and dc[0].func.attr.replace("safe_", "") == dn and lc[0].func.attr.replace("safe_", "") == ln
        ctx.ob("wrapper.pair", c, "%s.%s <-> %s.%s" % (mod, dn, mod, ln), ok, "encodes and decodes with the same library" if ok else
               "%s does not pair %s.%s with %s.%s" % (cn, mod, dn, mod, ln))
        enc = any(isinstance(x, ast.Call) and isinstance(x.func, ast.Attribute) and x.func.attr == "encode" for x in ast.walk(d.node))
        decd = any(isinstance(x, ast.Call) and isinstance(x.func, ast.Attribute) and x.func.attr == "decode" for x in ast.walk(l.node))
        ctx.ob("wrapper.text-encoding", c, "encode() <-> decode()", enc == decd, "text encoding is symmetric" if enc == decd else
               "%s encodes on one side only" % cn)
        # what is handed to the library on dumps is the tree parameter (possibly wrapped); on loads the content
        if dc:
            a0 = dc[0].args[0] if dc[0].args else None

            def holds_tree(e, depth=0):
                """the tree parameter, or the tree wrapped under one key, on every alternative"""
                if e is None or depth > 4:
                    return False
                if isinstance(e, ast.IfExp):
                    return holds_tree(e.body, depth + 1) and holds_tree(e.orelse, depth + 1)
                if isinstance(e, ast.Dict) and len(e.values) == 1 and e.keys[0] is not None:
                    return holds_tree(e.values[0], depth + 1)
                if isinstance(e, ast.Name):
                    srcs = value_sources(d, e, None)
                    return bool(srcs) and all((k == "param" and p == d.positional_params[2]) or
                                              (k == "expr" and isinstance(p, (ast.Dict, ast.IfExp)) and holds_tree(p, depth + 1)) for k, p in srcs) \
                        and any(k == "param" or holds_tree(p, depth + 1) for k, p in srcs)
                return False
            okt = holds_tree(a0)
            ctx.ob("wrapper.dumps-the-tree", d, dc[0], okt, "serialises the tree it was given" if okt else "does not serialise the tree parameter")
        # options must not influence loads (except the YAML root key handled above)
        opts = {x.attr for x in ast.walk(l.node) if isinstance(x, ast.Attribute) and isinstance(x.value, ast.Name) and x.value.id == l.self_name}
        opts -= {"root_key"}
        ctx.ob("wrapper.options-dont-change-decoding", l, "self.<option> used in loads: %s" % sorted(opts), not opts,
               "decoding does not depend on formatting options" if not opts else "decoding depends on %s" % sorted(opts))
        if cn == "YamlConfigFormat" and dc and lc:
            kw_d = {k.arg: ast.unparse(k.value) for k in dc[0].keywords}
            kw_l = {k.arg: ast.unparse(k.value) for k in lc[0].keywords}
            dd, ll = kw_d.get("Dumper", ""), kw_l.get("Loader", "")
            okp = dd.replace("Dumper", "") == ll.replace("Loader", "") and bool(ll)
            ctx.ob("wrapper.yaml-dumper-loader", c, "Dumper=%s / Loader=%s" % (dd, ll), okp, "matching Dumper/Loader pair" if okp else
                   "Dumper %s and Loader %s are not a matching pair" % (dd, ll))
    jd = model.method("JsonConfigFormat", "dumps")
    pretty_uses = [x for x in ast.walk(jd.node) if isinstance(x, ast.Attribute) and x.attr == "pretty"]
    ok = all(isinstance(getattr(getattr(x, "_parent", None), "_parent", None), ast.keyword) and x._parent._parent.arg == "indent" or
             isinstance(getattr(x, "_parent", None), ast.keyword) and x._parent.arg == "indent" for x in pretty_uses)
    if not ok and pretty_uses:
        # the same by specialisation: the keywords json.dumps receives with and without the option differ in `indent` only
        from engine.specialize import Spec
        kwsets = []
        for truth in (True, False):
            spj = Spec(an, jd, lambda e, node, truth=truth: truth if isinstance(e, ast.Attribute) and e.attr == "pretty" else None)
            kws = {}
            calls_ = [n for n in an.cfg(jd).nodes if n.kind == "call" and n in spj.normal and isinstance(n.ast.func, ast.Attribute)
                      and ast.unparse(n.ast.func) == "json.dumps"]
            for n in calls_:
                for k in n.ast.keywords:
                    if k.arg is not None:
                        # what the keyword receives under the scenario (a local decided by the option reads as its value)
                        leaves = spj.sources(k.value, n) if isinstance(k.value, (ast.Name, ast.IfExp)) else [("expr", k.value)]
                        kws[k.arg] = " | ".join(sorted({ast.unparse(pl) if isinstance(pl, ast.AST) else str(pl) for _k, pl in leaves}))
                    else:
                        for kk, pl in spj.sources(k.value, n):
                            if kk == "expr" and isinstance(pl, ast.Dict) and all(isinstance(x, ast.Constant) for x in pl.keys):
                                for x, y in zip(pl.keys, pl.values):
                                    kws[x.value] = ast.unparse(y)
                            else:
                                kws["**?"] = "?"
            kwsets.append(kws if len(calls_) == 1 else {"**?": "?"})
        rest = [{k: v for k, v in kw.items() if k != "indent"} for kw in kwsets]
        ok = rest[0] == rest[1] and "**?" not in rest[0] and not any("pretty" in v for v in rest[0].values()) and "indent" in kwsets[0] \
            and kwsets[1].get("indent", "None") == "None"
    ctx.ob("wrapper.json-pretty-only-indent", jd, "self.pretty", ok and bool(pretty_uses), "the pretty option only selects the indent" if ok else
           "the pretty option influences more than indentation")
