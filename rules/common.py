"""
Event vocabularies shared by the property rules.
"""
from __future__ import annotations

import ast
from typing import Iterable, List, Optional, Tuple

from engine.cfg import Node
from engine.defuse import reaching_defs, value_sources
from engine.effects import AP, UNKNOWN_AP, Analysis, Event, EventSpec
from engine.model import FunctionInfo
from engine.types import ANY, FnTypes

MUTATING_METHODS = {
    "update", "pop", "popitem", "clear", "setdefault", "__setitem__", "__delitem__", "add", "discard",
    "remove", "append", "extend", "insert", "difference_update", "intersection_update",
    "symmetric_difference_update", "sort", "reverse", "__ior__", "__iadd__", "__imul__",
    "move_to_end",
}
SET_ADD = {"add", "update", "__ior__"}
SET_REMOVE = {"discard", "remove", "clear", "pop", "difference_update", "intersection_update",
              "symmetric_difference_update", "__isub__", "__iand__"}

LIST_INSERTING = {"__init__", "append", "extend", "insert", "__setitem__", "__iadd__"}
DICT_INSERTING = {"__init__", "__setitem__", "update", "setdefault", "__ior__"}


def attr_owner(an: Analysis, fn: FunctionInfo, expr: ast.expr, attr: str, at: Optional[Node]) -> Optional[ast.expr]:
    """If *expr* denotes ``<X>.<attr>`` (directly or through local aliases) return X."""
    if isinstance(expr, ast.Attribute) and expr.attr == attr:
        return expr.value
    if isinstance(expr, ast.Name):
        for kind, payload in value_sources(fn, expr, at):
            if kind == "expr" and isinstance(payload, ast.Attribute) and payload.attr == attr:
                return payload.value
    return None


def container_mutations(an: Analysis, fn: FunctionInfo, node: Node, attr: str):
    """Mutations of the container held in attribute *attr* performed directly at *node*.

    Yields (owner expr, op, key expr | None, value expr | None)."""
    k = node.kind
    if k == "assign":
        st = node.ast
        tgts = st.targets if isinstance(st, ast.Assign) else [st.target]
        val = getattr(st, "value", None)
        flat = []
        for t in tgts:
            flat.extend(t.elts if isinstance(t, (ast.Tuple, ast.List)) else [t])
        for t in flat:
            if isinstance(t, ast.Subscript):
                owner = attr_owner(an, fn, t.value, attr, node)
                if owner is not None:
                    yield owner, "setitem" if not isinstance(st, ast.AugAssign) else "augitem", t.slice, val
            elif isinstance(t, ast.Attribute) and t.attr == attr:
                if isinstance(st, ast.AugAssign):
                    yield t.value, "aug:" + type(st.op).__name__, None, val
                else:
                    yield t.value, "rebind", None, val
            elif isinstance(t, ast.Name) and isinstance(st, ast.AugAssign):
                owner = attr_owner(an, fn, t, attr, node)
                if owner is not None:
                    yield owner, "aug:" + type(st.op).__name__, None, val
    elif k == "delete":
        for t in node.ast.targets:
            if isinstance(t, ast.Subscript):
                owner = attr_owner(an, fn, t.value, attr, node)
                if owner is not None:
                    yield owner, "delitem", t.slice, None
    elif k == "call":
        call = node.ast
        f = call.func
        if isinstance(f, ast.Attribute) and f.attr in MUTATING_METHODS:
            owner = attr_owner(an, fn, f.value, attr, node)
            if owner is not None:
                key = call.args[0] if call.args else None
                val = call.args[1] if len(call.args) > 1 else None
                yield owner, f.attr, key, val


def _ap(an, fn, expr, node) -> AP:
    return an.access_path(fn, expr, node)


def state_events(an: Analysis, fn: FunctionInfo, node: Node) -> Iterable[Event]:
    """W_DATA / MARK / UNMARK / W_FIELDS / W_BUILTIN / W_ATTR events performed directly at node."""
    for owner, op, key, val in container_mutations(an, fn, node, "_data"):
        yield ("W_DATA", _ap(an, fn, owner, node), op)
    for owner, op, key, val in container_mutations(an, fn, node, "_default_value_keys"):
        if op in SET_ADD or op in ("aug:BitOr",):
            yield ("MARK", _ap(an, fn, owner, node), op)
        elif op in SET_REMOVE or op in ("aug:Sub", "aug:BitAnd"):
            yield ("UNMARK", _ap(an, fn, owner, node), op)
        else:
            yield ("MARKMUT", _ap(an, fn, owner, node), op)
    for owner, op, key, val in container_mutations(an, fn, node, "_fields"):
        yield ("W_FIELDS", _ap(an, fn, owner, node), op)
    if node.kind == "call":
        call = node.ast
        f = call.func
        # builtin mutation of the proxy itself: super().m(...) / list.m(self, ...) / dict.m(self, ...)
        for t in an.targets(fn, node):
            if t.kind == "builtin_method" and t.cls in ("list", "dict"):
                meth = t.name.split(".", 1)[1]
                if FnTypes.is_super_call(f):
                    if meth in MUTATING_METHODS or meth == "__init__":
                        yield ("W_BUILTIN", ("self", ()), meth)
                elif isinstance(f, ast.Attribute):
                    ft = an.ft(fn)
                    bt = ft.type_of(f.value, ft.env_in.get(node) or {})
                    if bt != ANY and any(isinstance(a, str) and a in an.model.classes for a in bt):
                        if meth in MUTATING_METHODS:
                            yield ("W_BUILTIN", _ap(an, fn, f.value, node), meth)
            elif t.kind == "ext" and t.name in ("list.%s" % getattr(f, "attr", ""), "dict.%s" % getattr(f, "attr", "")) \
                    and call.args and f.attr in (MUTATING_METHODS | {"__init__"}):
                yield ("W_BUILTIN", _ap(an, fn, call.args[0], node), f.attr)
            elif t.kind == "ext" and t.name == "object.__setattr__" and len(call.args) >= 2:
                nm = call.args[1].value if isinstance(call.args[1], ast.Constant) else "*"
                yield ("W_ATTR", _ap(an, fn, call.args[0], node), nm)
    if node.kind == "assign":
        st = node.ast
        tgts = st.targets if isinstance(st, ast.Assign) else [st.target]
        flat = []
        for t in tgts:
            flat.extend(t.elts if isinstance(t, (ast.Tuple, ast.List)) else [t])
        for t in flat:
            if isinstance(t, ast.Attribute):
                # plain attribute store unless routed through a setter / __setattr__
                routed = [x for x in an.targets(fn, node) if x.via == "setattr"]
                if not routed or t.attr.startswith("_"):
                    yield ("W_ATTR", _ap(an, fn, t.value, node), t.attr)


STATE = EventSpec("state", state_events)


def is_obs_write(ev: Event) -> bool:
    return ev[0] in ("W_DATA", "MARK", "UNMARK", "MARKMUT", "W_BUILTIN")


def ap_root(ap: Optional[AP]):
    return ap[0] if ap is not None else None


def not_fresh(ap: AP) -> bool:
    r = ap[0]
    return not (isinstance(r, tuple) and r[0] == "fresh")


# ---------------------------------------------------------------- calls to the field protocol
def call_events(an: Analysis, fn: FunctionInfo, node: Node) -> Iterable[Event]:
    """VALIDATE / CODEC / LOAD_TREE / TO_TREE / CFG_VALIDATE / PARSE / INCLUDE / OPEN / FILE_* /
    PRINT / ENV_READ / URANDOM events at node (classified by resolved callee)."""
    if node.kind in ("test", "return") and node.ast is not None:
        # `name in os.environ`: asks the environment as well
        root = node.ast if isinstance(node.ast, ast.expr) else getattr(node.ast, "value", None)
        for x in (ast.walk(root) if root is not None else ()):
            if isinstance(x, ast.Compare) and any(isinstance(o, (ast.In, ast.NotIn)) for o in x.ops) and any(
                    isinstance(c, ast.Attribute) and c.attr == "environ" for c in x.comparators):
                yield ("ENV_READ", None, "in os.environ")
                break
    if node.kind not in ("call", "with_enter", "attr", "assign", "subscript"):
        return
    model = an.model
    for t in an.targets(fn, node):
        if t.kind in ("fn", "ctor") and t.fn is not None:
            g = t.fn
            c = g.cls
            if c is None:
                continue
            nm = g.name
            if nm == "validate" and c.is_subclass_of(model.cls("Field")):
                yield ("VALIDATE", None, g.qualname)
            elif nm == "_validate" and (c.name in ("ListProxy", "DictProxy")):
                yield ("VALIDATE", None, g.qualname)
            elif nm in ("to_basic", "to_python") and c.is_subclass_of(model.cls("Field")):
                yield ("CODEC", None, nm)
            elif nm == "load_tree" and c.is_subclass_of(model.cls("Config")):
                yield ("LOAD_TREE", None, g.qualname)
            elif nm == "to_tree" and c.is_subclass_of(model.cls("Config")):
                yield ("TO_TREE", None, g.qualname)
            elif nm == "validate" and c.is_subclass_of(model.cls("Config")):
                yield ("CFG_VALIDATE", None, g.qualname)
            elif nm == "loads" and c.is_subclass_of(model.cls("ConfigFormat")):
                yield ("PARSE", None, g.qualname)
            elif nm == "dumps" and c.is_subclass_of(model.cls("ConfigFormat")):
                yield ("FORMAT", None, g.qualname)
            elif nm == "include" and c.is_subclass_of(model.cls("IncludeFieldMixin")):
                yield ("INCLUDE", None, g.qualname)
        elif t.kind == "ext":
            if t.name == "builtins.open":
                yield ("OPEN", None, open_mode(node.ast))
            elif t.name == "builtins.print":
                yield ("PRINT", None, "print")
            elif t.name in ("os.environ.get", "os.getenv"):
                yield ("ENV_READ", None, t.name)
            elif t.name in ("os.urandom", "secrets.token_bytes"):
                yield ("URANDOM", None, t.name)
            elif t.name in ("?.write",):
                yield ("FILE_WRITE", None, t.name)
            elif t.name in ("?.write_bytes", "?.write_text"):
                yield ("OPEN", None, "wb" if t.name.endswith("bytes") else "w")
                yield ("FILE_WRITE", None, t.name)
            elif t.name in ("?.read_bytes", "?.read_text"):
                yield ("OPEN", None, "rb" if t.name.endswith("bytes") else "r")
                yield ("FILE_READ", None, t.name)
            elif t.name.startswith("sys.stdout") or t.name.startswith("sys.stderr"):
                yield ("PRINT", None, t.name)
        elif t.kind == "builtin_method":
            if t.name == "file.write":
                yield ("FILE_WRITE", None, t.name)
            elif t.name == "file.read":
                yield ("FILE_READ", None, t.name)
    if node.kind == "subscript":
        e = node.ast
        if isinstance(e.value, ast.Attribute) and e.value.attr == "environ":
            yield ("ENV_READ", None, "os.environ[]")
    if node.kind in ("assign",) and node.ast is not None:
        # `name in os.environ`: asks the environment as well
        root = node.ast if isinstance(node.ast, ast.expr) else getattr(node.ast, "value", None)
        for x in (ast.walk(root) if root is not None else ()):
            if isinstance(x, ast.Compare) and any(isinstance(o, (ast.In, ast.NotIn)) for o in x.ops) and any(
                    isinstance(c, ast.Attribute) and c.attr == "environ" for c in x.comparators):
                yield ("ENV_READ", None, "in os.environ")
                break


def open_path_expr(call: ast.Call):
    """the expression naming the file for open(...) / Path(...).write_bytes(...)"""
    if isinstance(call.func, ast.Attribute) and call.func.attr in ("write_bytes", "write_text", "read_bytes", "read_text"):
        return call.func.value
    return call.args[0] if call.args else None


def open_mode(call: ast.Call) -> str:
    if isinstance(call.func, ast.Attribute) and call.func.attr in ("write_bytes", "write_text", "read_bytes", "read_text"):
        return {"write_bytes": "wb", "write_text": "w", "read_bytes": "rb", "read_text": "r"}[call.func.attr]
    mode = None
    if len(call.args) >= 2:
        mode = call.args[1]
    for kw in call.keywords:
        if kw.arg == "mode":
            mode = kw.value
    if mode is None:
        return "r"
    if isinstance(mode, ast.Constant) and isinstance(mode.value, str):
        return mode.value
    # a named constant (_WRITE_BINARY = "wb")
    from engine.model import CURRENT_MODEL
    m = CURRENT_MODEL[0]
    if m is not None and isinstance(mode, (ast.Name, ast.Attribute)):
        fn = m.enclosing_function(call)
        if fn is not None:
            try:
                v = m.const_eval(fn.module, mode, fn.cls)
                if isinstance(v, str):
                    return v
            except (ValueError, KeyError, AttributeError):
                pass
    return "?"


CALLS = EventSpec("calls", call_events)


def fn_label(fn: FunctionInfo) -> str:
    return fn.qualname


def called_attr(fn, call, node=None):
    """the attribute a call goes through: `x.attr(...)`, or `f(...)` where the local f only ever holds `x.attr`
    (`custom = self.validator; custom(cfg, value)`); None otherwise"""
    import ast as _ast
    from engine.defuse import value_sources as _vs
    if not isinstance(call, _ast.Call):
        return None
    f = call.func
    if isinstance(f, _ast.Attribute):
        return f.attr
    if isinstance(f, _ast.Name):
        srcs = _vs(fn, f, node)
        attrs = {pl.attr if k == "expr" and isinstance(pl, _ast.Attribute) else None for k, pl in srcs}
        if len(attrs) == 1 and None not in attrs:
            return attrs.pop()
    return None


def check_truthiness_protocol(ctx):
    """`if not field:`, `while schema:`, `x = a or b` on schema / field / configuration objects mean "is there one" -- the classes
    define neither __bool__ nor __len__, so an object is always true.  A class of those families that gains __len__ / __bool__
    makes every such test depend on the object's *content* (an empty schema counts as missing).  Reported where a truthiness test
    in the package is applied to a value that can be an instance of the class."""
    an, model = ctx.an, ctx.model
    fams = [model.cls(n) for n in ("BaseField", "Config") if model.has_cls(n)]
    changed = [c for c in model.classes.values() if c.node is not None and any(c.is_subclass_of(f) for f in fams)
               and any(m in c.methods for m in ("__len__", "__bool__"))
               and not (c.is_subclass_of("list") or c.is_subclass_of("dict") or c.is_subclass_of("set"))]
    if not changed:
        ctx.ob("protocol.truthiness-stable", fams[0], "no __len__/__bool__ on schema, field or configuration classes", True,
               "objects of these classes are always true: truthiness tests mean 'is there one'", nontrivial=False)
        return
    names = {c.name for c in changed} | {s.name for c in changed for s in c.subclasses()}
    hits = []
    for fn in an.fns():
        ft = an.ft(fn)
        for n in an.cfg(fn).nodes:
            if n.kind != "test" or n.ast is None:
                continue
            e = n.ast
            if isinstance(e, ast.UnaryOp) and isinstance(e.op, ast.Not):
                e = e.operand
            if not isinstance(e, (ast.Name, ast.Attribute, ast.Call, ast.Subscript)):
                continue
            t = ft.type_of(e, ft.env_in.get(n) or {})
            # the static type is the class, one of its subclasses, or a base class of it (a value declared BaseField can be a Schema)
            if t != "ANY" and t and any(isinstance(a, str) and (a in names or (a in model.classes and any(c.is_subclass_of(model.classes[a]) for c in changed)))
                                        for a in t):
                hits.append((fn, n))
    for c in changed:
        mine = [(f, n) for f, n in hits]
        ctx.ob("protocol.truthiness-stable", c, "%s defines %s" % (c.name, [m for m in ("__len__", "__bool__") if m in c.methods][0]), not mine,
               "no truthiness test is applied to such an object" if not mine else
               "%s objects can now be false (an empty one is): %d truthiness test(s) in the package that meant 'is there one' -- first at %s in %s -- "
               "take an empty object for a missing one" % (c.name, len(mine), mine[0][0].site(mine[0][1].ast), mine[0][0].qualname))


def check_own_tables(ctx):
    """A configuration's value table, default marks and run-time field table are its own: Config.__init__ binds each of them to a
    new, empty container -- a table taken from the parent (or from anywhere else) makes sibling configurations write into one
    another (a run-time key of a dynamic section shadows a declared sensitive field of its neighbour)."""
    an, model = ctx.an, ctx.model
    init = model.method("Config", "__init__")
    n = 0
    for nd in an.cfg(init).nodes:
        if nd.kind == "assign" and isinstance(nd.ast, (ast.Assign, ast.AnnAssign)):
            tgts = nd.ast.targets if isinstance(nd.ast, ast.Assign) else [nd.ast.target]
            for t in tgts:
                if isinstance(t, ast.Attribute) and isinstance(t.value, ast.Name) and t.value.id == init.self_name and t.attr in ("_data", "_fields", "_default_value_keys") \
                        and nd.ast.value is not None:
                    n += 1
                    bad = None
                    for k, pl in value_sources(init, nd.ast.value, nd):
                        fresh = k == "expr" and ((isinstance(pl, ast.Call) and not pl.args and not pl.keywords and isinstance(pl.func, ast.Name)
                                                  and pl.func.id in ("dict", "set", "OrderedDict", "list")) or
                                                 (isinstance(pl, (ast.Dict, ast.Set, ast.List)) and not getattr(pl, "keys", None) and not getattr(pl, "elts", None)))
                        if not fresh:
                            bad = ast.unparse(pl)[:50] if isinstance(pl, ast.AST) else str(pl)
                    ctx.ob("config.own-tables", init, nd.ast, bad is None,
                           "self.%s is a new empty container" % t.attr if bad is None else
                           "Config.__init__ can bind self.%s to %s: the table is shared with another configuration, what one of them stores "
                           "(a run-time field, a value, a default mark) shows in the other" % (t.attr, bad), node=nd)
    ctx.need(n >= 3, "Config.__init__ no longer creates its tables")
