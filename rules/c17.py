"""C17 -- typed list/dict values behave like built-in list/dict of validated items."""
from __future__ import annotations

import ast
import builtins
import inspect

from engine.defuse import value_sources
from engine.flow import falls_through, path_avoiding, reachable_from_entry, returns_of
from engine.types import FnTypes
from . import c01
from .common import STATE, MUTATING_METHODS

META = {
    "explanation": (
        "Differential equality with the builtin over operation sequences is value-level and not decided. Decided: "
        "the proxies override every inserting method of their builtin base (table checked against dir() of the "
        "running interpreter); every override accepts the builtin's call forms (required and maximal positional "
        "arity from a table of the builtin signatures) and returns what the builtin returns -- the delegate's "
        "result, self for in-place operators, a new proxy for copy/+ -- on every path; no override of a mutating "
        "method can return normally without having delegated to the builtin (or to another mutating method of "
        "self) unless it was handed empty data: a type dispatch that silently falls through is a violation; only "
        "validated elements are delegated (shared with C01.5)."),
    "decided": ["C17.1 override completeness (shared with C01.4)", "C17.2 arity and result forwarding of overrides",
                "C17.3 no silent fall-through in mutators", "C17.4 copy / + return typed proxies", "C17.5 delegation carries validated elements (shared with C01.5)"],
    "not_decided": ["differential equality with the builtin over operation sequences (contents, order, return values)"],
}

# builtin signatures: method -> (required positional, maximal positional, accepts **kwargs), result kind
LIST_SIG = {
    "append": ((1, 1, False), "none"), "extend": ((1, 1, False), "none"), "insert": ((2, 2, False), "none"),
    "__setitem__": ((2, 2, False), "none"), "__iadd__": ((1, 1, False), "self"), "__add__": ((1, 1, False), "proxy"),
    "copy": ((0, 0, False), "proxy"), "__imul__": ((1, 1, False), "self"), "pop": ((0, 1, False), "delegate"),
    "remove": ((1, 1, False), "none"), "__delitem__": ((1, 1, False), "none"), "clear": ((0, 0, False), "none"),
    "sort": ((0, 0, True), "none"), "reverse": ((0, 0, False), "none"), "__mul__": ((1, 1, False), "any"), "__rmul__": ((1, 1, False), "any"),
}
DICT_SIG = {
    "__setitem__": ((2, 2, False), "none"), "setdefault": ((1, 2, False), "delegate"), "update": ((0, 1, True), "none"),
    "__ior__": ((1, 1, False), "self"), "copy": ((0, 0, False), "proxy"), "pop": ((1, 2, False), "delegate"),
    "popitem": ((0, 0, False), "delegate"), "__delitem__": ((1, 1, False), "none"), "clear": ((0, 0, False), "none"),
    "__or__": ((1, 1, False), "any"), "__ror__": ((1, 1, False), "any"), "__eq__": ((1, 1, False), "bool"),
}


def arity(fn):
    a = fn.node.args
    pos = [x.arg for x in list(a.posonlyargs) + list(a.args)][1:]
    nd = len(a.defaults)
    required = len(pos) - min(nd, len(pos))
    maximal = 10 ** 6 if a.vararg else len(pos)
    return required, maximal, a.kwarg is not None


def check(ctx):
    an, model = ctx.an, ctx.model
    state = an.summary(STATE)
    # C17.1 / C17.5 shared
    sub = type(ctx)(ctx.pid, ctx.an, ctx.tier)
    c01.check_override(sub)
    c01.check_taint(sub)
    ctx.obligations.extend(sub.obligations)

    nover = 0
    for c in model.classes.values():
        if c.node is None:
            continue
        base = "list" if c.is_subclass_of("list") else ("dict" if c.is_subclass_of("dict") else None)
        if base is None:
            continue
        sigs = LIST_SIG if base == "list" else DICT_SIG
        for name, f in sorted(c.methods.items()):
            if name not in sigs:
                continue
            nover += 1
            (breq, bmax, bkw), result = sigs[name]
            req, mx, kw = arity(f)
            ok = req <= breq and mx >= bmax and (kw or not bkw)
            ctx.ob("arity", f, "%s.%s accepts the call forms of %s.%s" % (c.name, name, base, name), ok,
                   "required %d <= %d, accepts up to %s positional%s" % (req, breq, mx if mx < 10 ** 6 else "*", ", **kwargs" if kw else "") if ok else
                   "%s.%s(%s) requires %d positional argument(s) and accepts %s; %s.%s takes %d..%d%s: a call that is valid on the builtin fails here"
                   % (c.name, name, ", ".join(p.arg for p in f.params[1:]), req, mx if mx < 10 ** 6 else "*", base, name, breq, bmax, " and keywords" if bkw else ""))
            rets = returns_of(an, f)
            ft = falls_through(an, f)
            if result == "none" or result == "any":
                pass
            elif result == "self":
                okr = not ft and bool(rets) and all(isinstance(r.ast.value, ast.Name) and r.ast.value.id == f.self_name for r in rets)
                ctx.ob("result.self", f, "%s.%s returns self" % (c.name, name), okr, "the in-place operator returns the proxy itself" if okr else
                       "%s.%s does not return self on every path: `x %s= y` rebinds x to %s" % (c.name, name, {"__iadd__": "+", "__ior__": "|", "__imul__": "*"}[name],
                                                                                                 "None" if ft else "another object"))
            elif result == "proxy":
                fty = an.ft(f)
                okr = not ft and bool(rets)
                for r in rets:
                    t = fty.type_at(r, r.ast.value)
                    if t == "ANY" or not t or not all(isinstance(a, str) and a in model.classes and model.classes[a].is_subclass_of(c) for a in t):
                        okr = False
                ctx.ob("result.proxy", f, "%s.%s returns a %s" % (c.name, name, c.name), okr, "the result stays typed and validating" if okr else
                       "%s.%s returns a plain %s (or None): later insertions are no longer validated" % (c.name, name, base))
            elif result == "delegate":
                okr = not ft and bool(rets)
                for r in rets:
                    srcs = value_sources(f, r.ast.value, r) if r.ast.value is not None else []
                    good = bool(srcs) and all(k == "expr" and isinstance(pl, ast.Call) and FnTypes.is_super_call(pl.func) and pl.func.attr == name for k, pl in srcs)
                    okr = okr and good
                ctx.ob("result.delegate", f, "%s.%s returns what %s.%s returns" % (c.name, name, base, name), okr,
                       "the builtin's result is handed back" if okr else
                       "%s.%s drops the result of %s.%s (returns %s)" % (c.name, name, base, name, "None" if ft or not rets else "something else"))
            elif result == "bool":
                ctx.ob("result.bool", f, "%s.%s" % (c.name, name), not ft, "returns on every path" if not ft else "%s.%s can return None" % (c.name, name), nontrivial=False)
            # C17.3 mutators must delegate
            if name in MUTATING_METHODS:
                g = an.cfg(f)
                params = {p.arg for p in f.params[1:]}

                def writes(n):
                    for ev in state.node_events(f, n):
                        if ev[0] == "W_BUILTIN" and ev[1] == ("self", ()):
                            return True
                    return False

                def cut_empty(a, b, lbl):
                    # `if iterable:` -- nothing to insert
                    return not (a.kind == "test" and isinstance(a.ast, ast.Name) and a.ast.id in params and lbl is False)

                def cut_loop_exit(a, b, lbl):
                    return True

                p = path_avoiding(an, f, g.entry, lambda n: n is g.exit, writes, edge_filter=cut_empty, exceptions=False)
                # a loop over (possibly empty) data that writes in its body is fine: ignore paths that only skip loops
                if p is not None:
                    skipped_loops = [x for x in p if x.kind == "for_iter"]
                    if skipped_loops and all(any(writes(m) for m in g.reachable([s for s, l in h.succ if l is True], may_raise=lambda n: False,
                                                                               stop=lambda n, h=h: n is h)) for h in skipped_loops):
                        # does a path exist that avoids writes without skipping a writing loop?
                        p2 = path_avoiding(an, f, g.entry, lambda n: n is g.exit, writes,
                                           edge_filter=lambda a, b, lbl: cut_empty(a, b, lbl) and not (a.kind == "for_iter" and lbl is False and a in skipped_loops),
                                           exceptions=False)
                        p = p2
                ctx.ob("mutator.delegates", f, "%s.%s reaches the builtin or raises" % (c.name, name), p is None,
                       "every normal return has delegated to %s (or the data was empty)" % base if p is None else
                       "%s.%s can return normally without changing the container and without raising: %s -- the operation is a silent no-op for "
                       "argument forms the builtin accepts" % (c.name, name, " -> ".join("%s@%s" % (x.kind, x.lineno) for x in p[:10])))
        # plain-builtin results accepted with reason
        for name in ("__mul__", "__rmul__", "__or__", "__ror__"):
            if name in dir(getattr(builtins, base)) and name not in c.methods:
                ctx.ob("result.plain-accepted", c, "%s.%s inherited" % (c.name, name), True,
                       "returns a plain %s with equal contents: not demanded typed by the statement" % base, nontrivial=False)
    ctx.need(nover >= 10, "fewer than 10 overrides of builtin methods found in the proxies")
