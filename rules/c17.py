"""C17 -- typed list/dict values behave like built-in list/dict of validated items."""
from __future__ import annotations

import ast
import builtins
import inspect

from engine.defuse import value_sources
from engine.flow import dominating_guards, falls_through, path_avoiding, reachable_from_entry, returns_of, same_name_value
from engine.types import FnTypes
from . import c01
from .common import STATE, MUTATING_METHODS

META = {
    "explanation": (
        "Differential equality with the builtin over operation sequences is value-level and not decided. Decided: "
        "the proxies override every inserting method of their builtin base (table checked against dir() of the "
        "running interpreter); every override accepts the builtin's call forms (required and maximal positional "
        "arity from a table of the builtin signatures) and returns what the builtin returns -- the delegate's "
        "result, self for in-place operators, a new proxy for copy/+ -- on every path; no override of a mutating "
        "method can return normally without having delegated to the builtin (or to another mutating method of "
        "self) unless it was handed empty data: a type dispatch that silently falls through is a violation; only "
        "validated elements are delegated (shared with C01.5)."),
    "decided": ["C17.1 override completeness (shared with C01.4)", "C17.2 arity and result forwarding of overrides",
                "C17.3 no silent fall-through in mutators", "C17.4 copy / + return typed proxies", "C17.5 delegation carries validated elements (shared with C01.5)"],
    "not_decided": ["differential equality with the builtin over operation sequences (contents, order, return values)"],
}

# builtin signatures: method -> (required positional, maximal positional, accepts **kwargs), result kind
LIST_SIG = {
    "append": ((1, 1, False), "none"), "extend": ((1, 1, False), "none"), "insert": ((2, 2, False), "none"),
    "__setitem__": ((2, 2, False), "none"), "__iadd__": ((1, 1, False), "self"), "__add__": ((1, 1, False), "proxy"),
    "copy": ((0, 0, False), "proxy"), "__imul__": ((1, 1, False), "self"), "pop": ((0, 1, False), "delegate"),
    "remove": ((1, 1, False), "none"), "__delitem__": ((1, 1, False), "none"), "clear": ((0, 0, False), "none"),
    "sort": ((0, 0, True), "none"), "reverse": ((0, 0, False), "none"), "__mul__": ((1, 1, False), "any"), "__rmul__": ((1, 1, False), "any"),
}
DICT_SIG = {
    "__setitem__": ((2, 2, False), "none"), "setdefault": ((1, 2, False), "delegate"), "update": ((0, 1, True), "none"),
    "__ior__": ((1, 1, False), "self"), "copy": ((0, 0, False), "proxy"), "pop": ((1, 2, False), "delegate"),
    "popitem": ((0, 0, False), "delegate"), "__delitem__": ((1, 1, False), "none"), "clear": ((0, 0, False), "none"),
    "__or__": ((1, 1, False), "any"), "__ror__": ((1, 1, False), "any"), "__eq__": ((1, 1, False), "bool"),
}


def arity(fn):
    a = fn.node.args
    pos = [x.arg for x in list(a.posonlyargs) + list(a.args)][1:]
    nd = len(a.defaults)
    required = len(pos) - min(nd, len(pos))
    maximal = 10 ** 6 if a.vararg else len(pos)
    return required, maximal, a.kwarg is not None


def setdefault_spelled_out(an, f, r):
    """`if k in self: return self[k]` / `super().__setitem__(k, v); return v` -- what dict.setdefault does, written out"""
    v = r.ast.value
    guards = dominating_guards(an, f, r)
    present = [t for t, tr in guards if isinstance(t.ast, ast.Compare) and len(t.ast.ops) == 1 and isinstance(t.ast.comparators[0], ast.Name)
               and t.ast.comparators[0].id == f.self_name and ((isinstance(t.ast.ops[0], ast.In) and tr) or (isinstance(t.ast.ops[0], ast.NotIn) and not tr))]
    absent = [t for t, tr in guards if isinstance(t.ast, ast.Compare) and len(t.ast.ops) == 1 and isinstance(t.ast.comparators[0], ast.Name)
              and t.ast.comparators[0].id == f.self_name and ((isinstance(t.ast.ops[0], ast.In) and not tr) or (isinstance(t.ast.ops[0], ast.NotIn) and tr))]
    if present:
        k = present[0].ast.left
        if isinstance(v, ast.Subscript) and isinstance(v.value, ast.Name) and v.value.id == f.self_name and ast.unparse(v.slice) == ast.unparse(k):
            return True
        if isinstance(v, ast.Call) and isinstance(v.func, ast.Attribute) and v.func.attr in ("get", "__getitem__") and v.args and ast.unparse(v.args[0]) == ast.unparse(k):
            return True
        return False
    if absent:
        k = absent[0].ast.left
        g = an.cfg(f)
        stores = [m for m in g.nodes if m.kind == "call" and isinstance(m.ast.func, ast.Attribute) and m.ast.func.attr == "__setitem__"
                  and FnTypes.is_super_call(m.ast.func) and len(m.ast.args) == 2 and ast.unparse(m.ast.args[0]) == ast.unparse(k)]
        return any(isinstance(v, ast.Name) and isinstance(m.ast.args[1], ast.Name) and same_name_value(f, v, r, m.ast.args[1], m) for m in stores)
    return False


def check_copy_protocol(ctx):
    """copy.copy / copy.deepcopy / pickle build the copy from what __reduce_ex__ / __reduce__ / __copy__ / __deepcopy__ say.  The
    proxies define none of them today (the default reconstructs an object of the proxy class).  A definition on a proxy class or on
    one of its package bases has to name the proxy class (type(self), self.__class__, the class itself) as what is rebuilt: a
    reduction to the plain builtin (`(list, (list(self),))`) makes every copy made through the copy module an unvalidated list."""
    an, model = ctx.an, ctx.model
    proxies = [c for c in model.classes.values() if c.node is not None and (c.is_subclass_of("list") or c.is_subclass_of("dict") or c.is_subclass_of("set"))
               and c.name.endswith("Proxy")]
    ctx.need(len(proxies) >= 2, "typed container classes not found")
    seen = set()
    n = 0
    for pc in proxies:
        for k in pc.package_mro():
            for nm in ("__reduce_ex__", "__reduce__", "__copy__", "__deepcopy__"):
                f = k.methods.get(nm)
                if f is None or id(f) in seen:
                    continue
                seen.add(id(f))
                n += 1
                bad = None
                for r in [x for x in ast.walk(f.node) if isinstance(x, ast.Return) and x.value is not None]:
                    v = r.value
                    if isinstance(v, ast.Call) and isinstance(v.func, ast.Attribute) and isinstance(v.func.value, ast.Call) \
                            and isinstance(v.func.value.func, ast.Name) and v.func.value.func.id == "super":
                        continue        # the default
                    head = v.elts[0] if isinstance(v, ast.Tuple) and v.elts else (v.func if isinstance(v, ast.Call) else None)
                    txt = ast.unparse(head) if head is not None else ""
                    typed = txt in ("type(self)", "self.__class__", "copyreg.__newobj__") or txt in [p_.name for p_ in proxies] or txt.endswith(".copy")
                    if not typed:
                        bad = r
                ctx.ob("copy-protocol.rebuilds-proxy", f, nm, bad is None,
                       "the copy protocol rebuilds an object of the proxy class" if bad is None else
                       "%s reduces a typed container to `%s`: copy.copy / copy.deepcopy / pickle of a typed list or dict give a plain, "
                       "unvalidated container" % (f.qualname, ast.unparse(bad.value)[:50]), node=bad)
    if n == 0:
        ctx.ob("copy-protocol.rebuilds-proxy", proxies[0], "no __reduce__/__copy__ overrides", True,
               "the proxies keep the default copy protocol (an object of the proxy class is rebuilt)", nontrivial=False)


def check(ctx):
    an, model = ctx.an, ctx.model
    state = an.summary(STATE)
    check_copy_protocol(ctx)
    # C17.1 / C17.5 shared
    sub = type(ctx)(ctx.pid, ctx.an, ctx.tier)
    c01.check_override(sub)
    c01.check_taint(sub)
    ctx.obligations.extend(sub.obligations)

    nover = 0
    for c in model.classes.values():
        if c.node is None:
            continue
        base = "list" if c.is_subclass_of("list") else ("dict" if c.is_subclass_of("dict") else None)
        if base is None:
            continue
        sigs = LIST_SIG if base == "list" else DICT_SIG
        for name, f in sorted(c.methods.items()):
            if name not in sigs:
                continue
            nover += 1
            (breq, bmax, bkw), result = sigs[name]
            req, mx, kw = arity(f)
            ok = req <= breq and mx >= bmax and (kw or not bkw)
            ctx.ob("arity", f, "%s.%s accepts the call forms of %s.%s" % (c.name, name, base, name), ok,
                   "required %d <= %d, accepts up to %s positional%s" % (req, breq, mx if mx < 10 ** 6 else "*", ", **kwargs" if kw else "") if ok else
                   "%s.%s(%s) requires %d positional argument(s) and accepts %s; %s.%s takes %d..%d%s: a call that is valid on the builtin fails here"
                   % (c.name, name, ", ".join(p.arg for p in f.params[1:]), req, mx if mx < 10 ** 6 else "*", base, name, breq, bmax, " and keywords" if bkw else ""))
            rets = returns_of(an, f)
            ft = falls_through(an, f)
            if result == "none" or result == "any":
                pass
            elif result == "self":
                okr = not ft and bool(rets) and all(isinstance(r.ast.value, ast.Name) and r.ast.value.id == f.self_name for r in rets)
                ctx.ob("result.self", f, "%s.%s returns self" % (c.name, name), okr, "the in-place operator returns the proxy itself" if okr else
                       "%s.%s does not return self on every path: `x %s= y` rebinds x to %s" % (c.name, name, {"__iadd__": "+", "__ior__": "|", "__imul__": "*"}[name],
                                                                                                 "None" if ft else "another object"))
            elif result == "proxy":
                fty = an.ft(f)
                okr = not ft and bool(rets)
                for r in rets:
                    t = fty.type_at(r, r.ast.value)
                    if t == "ANY" or not t or not all(isinstance(a, str) and a in model.classes and model.classes[a].is_subclass_of(c) for a in t):
                        okr = False
                ctx.ob("result.proxy", f, "%s.%s returns a %s" % (c.name, name, c.name), okr, "the result stays typed and validating" if okr else
                       "%s.%s returns a plain %s (or None): later insertions are no longer validated" % (c.name, name, base))
            elif result == "delegate":
                okr = not ft and bool(rets)
                for r in rets:
                    srcs = value_sources(f, r.ast.value, r) if r.ast.value is not None else []
                    good = bool(srcs) and all(k == "expr" and isinstance(pl, ast.Call) and FnTypes.is_super_call(pl.func) and pl.func.attr == name for k, pl in srcs)
                    if not good and name == "setdefault":
                        # setdefault spelled out: the held value when the key is present, else store and hand back the new value
                        good = setdefault_spelled_out(an, f, r)
                    okr = okr and good
                ctx.ob("result.delegate", f, "%s.%s returns what %s.%s returns" % (c.name, name, base, name), okr,
                       "the builtin's result is handed back" if okr else
                       "%s.%s drops the result of %s.%s (returns %s)" % (c.name, name, base, name, "None" if ft or not rets else "something else"))
            elif result == "bool":
                ctx.ob("result.bool", f, "%s.%s" % (c.name, name), not ft, "returns on every path" if not ft else "%s.%s can return None" % (c.name, name), nontrivial=False)
            # C17.3 mutators must delegate
            if name in MUTATING_METHODS:
                g = an.cfg(f)
                params = {p.arg for p in f.params[1:]}

                def writes(n):
                    for ev in state.node_events(f, n):
                        if ev[0] == "W_BUILTIN" and ev[1] == ("self", ()):
                            return True
                    return False

                def cut_empty(a, b, lbl):
                    # `if iterable:` -- nothing to insert
                    if a.kind == "test" and isinstance(a.ast, ast.Name) and a.ast.id in params and lbl is False:
                        return False
                    # setdefault: the key is already there -- the builtin changes nothing either
                    if name == "setdefault" and a.kind == "test" and isinstance(a.ast, ast.Compare) and len(a.ast.ops) == 1 \
                            and isinstance(a.ast.comparators[0], ast.Name) and a.ast.comparators[0].id == f.self_name:
                        if (isinstance(a.ast.ops[0], ast.In) and lbl is True) or (isinstance(a.ast.ops[0], ast.NotIn) and lbl is False):
                            return False
                    return True

                def cut_loop_exit(a, b, lbl):
                    return True

                p = path_avoiding(an, f, g.entry, lambda n: n is g.exit, writes, edge_filter=cut_empty, exceptions=False)
                # a loop over (possibly empty) data that writes in its body is fine: ignore paths that only skip loops
                if p is not None:
                    skipped_loops = [x for x in p if x.kind == "for_iter"]
                    if skipped_loops and all(any(writes(m) for m in g.reachable([s for s, l in h.succ if l is True], may_raise=lambda n: False,
                                                                               stop=lambda n, h=h: n is h)) for h in skipped_loops):
                        # does a path exist that avoids writes without skipping a writing loop?
                        p2 = path_avoiding(an, f, g.entry, lambda n: n is g.exit, writes,
                                           edge_filter=lambda a, b, lbl: cut_empty(a, b, lbl) and not (a.kind == "for_iter" and lbl is False and a in skipped_loops),
                                           exceptions=False)
                        p = p2
                ctx.ob("mutator.delegates", f, "%s.%s reaches the builtin or raises" % (c.name, name), p is None,
                       "every normal return has delegated to %s (or the data was empty)" % base if p is None else
                       "%s.%s can return normally without changing the container and without raising: %s -- the operation is a silent no-op for "
                       "argument forms the builtin accepts" % (c.name, name, " -> ".join("%s@%s" % (x.kind, x.lineno) for x in p[:10])))
        # plain-builtin results accepted with reason
        for name in ("__mul__", "__rmul__", "__or__", "__ror__"):
            if name in dir(getattr(builtins, base)) and name not in c.methods:
                ctx.ob("result.plain-accepted", c, "%s.%s inherited" % (c.name, name), True,
                       "returns a plain %s with equal contents: not demanded typed by the statement" % base, nontrivial=False)
    ctx.need(nover >= 10, "fewer than 10 overrides of builtin methods found in the proxies")
    check_star_params(ctx)
    check_repetition(ctx)
    check_single_pass(ctx)


def check_star_params(ctx):
    """`update(other, **kw)` applies both: a method that takes **kwargs / *args consumes them on every normal path."""
    an, model = ctx.an, ctx.model
    n = 0
    for cname in ("DictProxy", "ListProxy"):
        c = model.cls(cname)
        for mname, f in sorted(c.methods.items()):
            stars = [a.arg for a in (f.node.args.vararg, f.node.args.kwarg) if a is not None]
            if not stars or mname == "__init__":
                continue
            g = an.cfg(f)
            for sname in stars:
                n += 1
                uses = {m for m in g.nodes if m.ast is not None and m.kind in ("call", "assign", "for_iter", "attr", "test", "return", "expr", "bind")
                        and any(isinstance(x, ast.Name) and x.id == sname and isinstance(x.ctx, ast.Load) for x in ast.walk(m.ast))}
                p = path_avoiding(an, f, g.entry, lambda x: x is g.exit, lambda x: x in uses)
                ctx.ob("forward.star-params", f, "%s(%s%s)" % (mname, "**" if f.node.args.kwarg and f.node.args.kwarg.arg == sname else "*", sname), p is None,
                       "the extra arguments are applied on every path" if p is None else
                       "%s can return without looking at %s (%s): the builtin applies them in every call form" % (
                           f.qualname, sname, " -> ".join("%s@%s" % (x.kind, x.lineno) for x in p[:6])))
    if n == 0:
        ctx.note("no *args/**kwargs taking proxy method (the override table reports a missing / narrowed update)")


def check_repetition(ctx):
    """`proxy * n` / `n * proxy`: the builtin yields max(0, n) repetitions.  An override either hands the count to the builtin
    or is the loop `start; for _ in range(n + c): extend`, whose repetition count start + max(0, n + c) is compared with
    max(0, n) in both regimes n >= 1 and n <= 0 (a finite case split: the law is linear in n)."""
    an, model = ctx.an, ctx.model
    lp = model.cls("ListProxy")
    for mname in ("__mul__", "__rmul__", "__imul__"):
        f = lp.methods.get(mname)
        if f is None:
            # an alias `__rmul__ = __mul__` is decided with its target; absence means the builtin's own operator
            continue
        if len(f.positional_params) < 2:
            continue
        cparam = f.positional_params[1]
        g = an.cfg(f)
        delegated = any(m.kind == "call" and isinstance(m.ast.func, ast.Attribute) and m.ast.func.attr in ("__mul__", "__rmul__", "__imul__")
                        and any(isinstance(a, ast.Name) and a.id == cparam for a in m.ast.args) for m in g.nodes) or \
            any(isinstance(x, ast.BinOp) and isinstance(x.op, ast.Mult) and any(isinstance(y, ast.Name) and y.id == cparam for y in (x.left, x.right))
                for x in ast.walk(f.node))
        if delegated:
            ctx.ob("repeat.count-law", f, mname, True, "the repetition count is handed to the builtin operator")
            continue
        loops = [x for x in ast.walk(f.node) if isinstance(x, ast.For) and isinstance(x.iter, ast.Call) and isinstance(x.iter.func, ast.Name)
                 and x.iter.func.id == "range" and len(x.iter.args) == 1]
        if len(loops) != 1:
            ctx.ob("repeat.count-law", f, mname, True, "shape not recognised: repetition law not decided for this spelling", nontrivial=False)
            ctx.note("%s: repetition not written as one range() loop or a builtin multiplication; count law not decided" % f.qualname)
            continue
        arg = loops[0].iter.args[0]
        c = None
        if isinstance(arg, ast.Name) and arg.id == cparam:
            c = 0
        elif isinstance(arg, ast.BinOp) and isinstance(arg.left, ast.Name) and arg.left.id == cparam and isinstance(arg.right, ast.Constant) \
                and isinstance(arg.right.value, int) and isinstance(arg.op, (ast.Add, ast.Sub)):
            c = arg.right.value if isinstance(arg.op, ast.Add) else -arg.right.value
        if c is None:
            ctx.ob("repeat.count-law", f, mname, True, "loop bound not linear in the count: not decided", nontrivial=False)
            continue
        # how many copies of self does the accumulator start with?
        start = None
        for r in returns_of(an, f):
            for k, pl in value_sources(f, r.ast.value, r):
                if k == "expr" and isinstance(pl, ast.Call) and isinstance(pl.func, ast.Attribute) and pl.func.attr == "copy":
                    start = 1
                elif k == "expr" and isinstance(pl, ast.Call) and any(t.kind == "ctor" for nn in g.nodes_for(pl) for t in an.targets(f, nn)):
                    has_data = len(pl.args) >= 3 or any(kw.arg in ("iterable",) for kw in pl.keywords)
                    start = 1 if has_data else 0
                elif k == "param" and pl == f.self_name:
                    start = 1
        if start is None:
            ctx.ob("repeat.count-law", f, mname, True, "accumulator not recognised: not decided", nontrivial=False)
            continue
        # guard clause for n <= 0 returning an empty proxy?
        guarded = False
        for t in g.nodes:
            if t.kind == "test" and isinstance(t.ast, ast.Compare) and isinstance(t.ast.left, ast.Name) and t.ast.left.id == cparam \
                    and isinstance(t.ast.comparators[0], ast.Constant) and (
                        (isinstance(t.ast.ops[0], ast.LtE) and t.ast.comparators[0].value == 0) or
                        (isinstance(t.ast.ops[0], ast.Lt) and t.ast.comparators[0].value == 1)):
                for s_, lbl in t.succ:
                    if lbl is True and g.path(s_, lambda x: x.kind == "return", may_raise=lambda x: False, stop=lambda x: x.kind in ("test", "for_iter")):
                        guarded = True
        ok_pos = (start + max(0, 1 + c) == 1) and (start + max(0, 5 + c) == 5)
        ok_nonpos = guarded or (start == 0 and c <= 0)
        ok = ok_pos and ok_nonpos
        ctx.ob("repeat.count-law", f, mname, ok,
               "start=%d, range(n%+d): n repetitions for n >= 1 and none for n <= 0, like the builtin" % (start, c) if ok else
               ("the result holds %d + max(0, n%+d) copies of the items; the builtin holds max(0, n): %s" % (
                   start, c, "wrong for n <= 0 (list * 0 is empty)" if ok_pos else "wrong for positive counts")))


def check_single_pass(ctx):
    """An argument that may be a one-shot iterable (generator, zip, map, iterator) is traversed at most once on any path:
    a second traversal sees nothing, so `update(zip(keys, values))` would silently add nothing."""
    an, model = ctx.an, ctx.model
    targets = []
    for fn in an.fns():
        if fn.module.short not in ("fields.list_field", "fields.dict_field"):
            continue
        for a in fn.params:
            ann = ast.unparse(a.annotation) if a.annotation is not None else ""
            if a.arg != fn.self_name and ("Iterable" in ann or "KeyValuePairs" in ann or "Iterator" in ann or (not ann and a.arg in ("iterable", "pairs"))):
                targets.append((fn, a.arg))
    n = 0
    for fn, p in targets:
        g = an.cfg(fn)
        from engine.defuse import reaching_defs
        rd = reaching_defs(fn)

        def is_p(e, at):
            if not isinstance(e, ast.Name):
                return False
            ds = rd.reaching(at, e.id)
            return e.id == p and bool(ds) and all(d.kind == "param" for d in ds)

        def consumes(nd):
            a_ = nd.ast
            if nd.kind == "for_iter":
                it = a_.iter if isinstance(a_, (ast.For, ast.comprehension)) else None
                if it is None:
                    return False
                if is_p(it, nd):
                    return True
                if isinstance(it, ast.Call) and isinstance(it.func, ast.Name) and it.func.id in ("enumerate", "zip", "iter", "reversed", "map", "filter") \
                        and any(is_p(x, nd) for x in it.args):
                    return True
                return False
            if nd.kind == "call" and isinstance(a_.func, ast.Name) and a_.func.id in ("list", "tuple", "dict", "set", "sorted", "sum", "max", "min", "any", "all", "frozenset") \
                    and a_.args and is_p(a_.args[0], nd):
                return True
            if nd.kind == "call" and isinstance(a_.func, ast.Attribute) and a_.func.attr in ("extend", "update", "__init__", "__iadd__", "__ior__", "join") \
                    and a_.args and is_p(a_.args[-1], nd):
                return True
            return False
        sites = [nd for nd in g.nodes if nd.ast is not None and consumes(nd)]
        n += 1
        ftp = an.ft(fn)

        def reiterable_edge(a, b, lbl):
            # under isinstance(p, <dict / list / tuple / proxy>) the argument can be traversed again
            if a.kind == "test" and lbl is True and isinstance(a.ast, ast.Call) and isinstance(a.ast.func, ast.Name) and a.ast.func.id == "isinstance" \
                    and len(a.ast.args) == 2 and isinstance(a.ast.args[0], ast.Name) and a.ast.args[0].id == p:
                return False
            return True
        bad = None
        for s1 in sites:
            for s2 in sites:
                if s1 is s2 and s1.kind != "for_iter":
                    continue
                if s1 is s2:
                    continue
                pth_ = g.path(s1, lambda x, s2=s2: x is s2, may_raise=lambda x: False, from_successors=True, edge_filter=reiterable_edge)
                # both must lie on one path from the entry that does not take a "re-iterable" edge
                if pth_ is not None and g.path(g.entry, lambda x, s1=s1: x is s1, may_raise=lambda x: False, edge_filter=reiterable_edge) is not None:
                    bad = (s1, s2)
        # the argument is taken as the iterable it is: nothing wraps it into a one-element display (`[iterable]` for a str / a scalar
        # makes extend("abc") add one item where list.extend adds three)
        wrapped = None
        for x in ast.walk(fn.node):
            if isinstance(x, (ast.List, ast.Tuple, ast.Set)) and len(x.elts) == 1 and isinstance(x.elts[0], ast.Name) and x.elts[0].id == p \
                    and isinstance(x.ctx, ast.Load):
                nn_ = [nd for nd in g.nodes if nd.ast is not None and any(y is x for y in ast.walk(nd.ast))]
                if not nn_ or all(d.kind == "param" for d in rd.reaching(nn_[0], p)):
                    wrapped = x
        ctx.ob("iterable.as-given", fn, "parameter %s" % p, wrapped is None,
               "the argument is iterated as it is" if wrapped is None else
               "%s wraps its argument into %s: a str / bytes (an iterable of its characters for the built-in) or another one-shot value is added "
               "as one item" % (fn.qualname, ast.unparse(wrapped)), nontrivial=wrapped is not None)
        ctx.ob("iterable.single-pass", fn, "parameter %s" % p, bad is None,
               "traversed at most once on every path (one-shot iterables work)" if bad is None else
               "%s traverses its argument `%s` twice (line %s and line %s): a generator / zip / iterator is exhausted by the first pass and the "
               "second sees nothing" % (fn.qualname, p, bad[0].lineno, bad[1].lineno), nontrivial=bad is not None or bool(sites))
    ctx.need(n >= 3, "fewer than 3 iterable-taking functions found in the proxy modules")
