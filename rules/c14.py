"""C14 -- environment variables beat files, assignment beats both, names are predictable."""
from __future__ import annotations

import ast

from engine.defuse import reaching_defs, value_sources
from engine.effects import EventSpec
from engine.flow import same_name_value, dominating_guards, expand_aliases, must_pass, path_avoiding, reachable_from_entry
from .common import CALLS, call_events

META = {
    "explanation": (
        "Decided: the environment is read in exactly two places (Field.__setdefault__ and the skip guard of "
        "Config.load_tree) and the two guards are the same predicate over the field's env attribute, so a "
        "document value is skipped exactly when the variable was used; the variable's value is validated and "
        "is what becomes the default, the declared default only when the variable gave nothing; the assignment "
        "route (Config._set_value's Field branch and everything validate/_validate/__setval__ reach without "
        "building a new sub-configuration) never consults the environment; every persistent field kind that "
        "overrides __setdefault__ either delegates to Field.__setdefault__ on every normal path or performs the "
        "same guarded read -- otherwise load_tree skips the file value for a variable nobody applied; the derived "
        "variable name is prefix + '_' + KEY.upper(), opt-out (env=False) returns before any derivation."),
    "decided": ["C14.1 ENV_READ sites and agreement of read guard and skip guard", "C14.2 variable validated, applied, default only as fallback",
                "C14.3 assignment route free of environment reads", "C14.4 sibling __setdefault__ implementations keep the protocol",
                "C14.5 shape of the derived variable name and the opt-out"],
    "not_decided": ["the derived variable names over the whole schema/field setting matrix"],
}


def norm_guard(fn, t, recv_names):
    """normalise a guard expression: the field receiver becomes F, local aliases are expanded"""
    e = expand_aliases(fn, t.ast, t)
    txt = ast.unparse(e)
    for r in recv_names:
        txt = txt.replace(r + ".", "F.")
    return txt


def no_config_creation(an, fn, node, target):
    """do not follow into the construction / loading of a *new* configuration (load semantics)"""
    Config = an.model.cls("Config")
    if target.kind == "ctor" and target.cls is not None and hasattr(target.cls, "is_subclass_of") and target.cls.is_subclass_of(Config):
        return False
    if target.fn is not None and target.fn.cls is not None and target.fn.cls.is_subclass_of(Config) and target.fn.name in ("__init__", "load_tree"):
        return False
    return True


ASSIGN_CALLS = EventSpec("calls-no-new-config", call_events, follow=no_config_creation)


def check(ctx):
    an, model = ctx.an, ctx.model
    calls = an.summary(CALLS)
    Field = model.cls("Field")
    sd = model.method("Field", "__setdefault__")
    lt = model.method("Config", "load_tree")

    # ---------------------------------------------------------------- C14.1
    sites = []
    for fn in an.fns():
        for n in an.cfg(fn).nodes:
            if any(e[0] == "ENV_READ" for e in calls.direct(fn, n)):
                sites.append((fn, n))
    ctx.need(any(f is sd for f, _ in sites), "Field.__setdefault__ no longer reads the environment: vanished anchor")
    if not any(f is lt for f, _ in sites):
        ctx.ob("skip.exists", lt, "skip guard for keys bound to a set variable", False,
               "load_tree no longer skips keys whose environment variable is set: a document loaded afterwards overrides the variable")
        return
    ctx.ob("skip.exists", lt, "skip guard for keys bound to a set variable", True, "load_tree consults the variable before applying a key")
    Config_ = model.cls("Config")

    def same_skip_guard(fn, n):
        """another tree loader of Config that consults the variable in the very test load_tree uses (shared code expanded twice)"""
        if fn.cls is None or not fn.cls.is_subclass_of(Config_) or fn.name == "__init__":
            return False
        def test_text(f_, n_):
            p_ = n_.ast
            while p_ is not None and not isinstance(p_, (ast.If, ast.While, ast.IfExp, ast.stmt)):
                p_ = getattr(p_, "_parent", None)
            return ast.unparse(p_.test) if isinstance(p_, (ast.If, ast.While, ast.IfExp)) else None
        mine = test_text(fn, n)
        import re as _re
        norm = lambda t_: _re.sub(r"__inl\d+_", "", t_) if t_ else t_
        theirs = {norm(test_text(lt, n2)) for f2, n2 in sites if f2 is lt}
        return mine is not None and norm(mine) in theirs
    for fn, n in sites:
        # (a field's own default route may consult the variable as well: what it does with it is judged by the sibling rule)
        ok = fn is sd or fn is lt or same_skip_guard(fn, n) or (fn.name == "__setdefault__" and fn.cls is not None and fn.cls.is_subclass_of(Field))
        ctx.ob("env-read.sites", fn, n.ast, ok, "environment consulted by the default route / the load skip guard" if ok else
               "%s reads the environment: a third place decides about variables on its own" % fn.qualname, node=n)
    # ---- the two consumers of the variable decide by one predicate: a table over (name setting, variable content) ----------
    # Both functions are specialised for every combination of the field's env setting (None, False, "", "NAME") and the
    # variable's content (unset, "", "text").  __setdefault__ must apply the validated variable, and load_tree must skip the
    # document value, exactly for ("NAME", "text"); everything else stores the default / the document value.  Guards spelled
    # as isinstance + truthiness, `!= ""`, local flags, conditional expressions or a shared helper all give the same table.
    from engine.specialize import Spec
    set_value = model.method("Config", "_set_value")
    sdv = model.method("Config", "_set_default_value")
    g = an.cfg(lt)
    gsd = an.cfg(sd)
    NAME_STATES = ("none", "false", "empty", "name")
    VAR_STATES = ("unset", "empty", "text")

    def table_decider(fn, ftx, reads, name_state, var_state):
        read_ids = {id(n.ast) for n in reads}

        def is_env_name(e, node):
            e2 = expand_aliases(fn, e, node)
            return isinstance(e2, ast.Attribute) and e2.attr == "env"

        def is_read(e, node):
            if id(e) in read_ids:
                return True
            if isinstance(e, ast.Name):
                srcs = value_sources(fn, e, node)
                return bool(srcs) and all(k == "expr" and id(p) in read_ids for k, p in srcs)
            return False

        def decide(e, node):
            if isinstance(e, ast.Call) and isinstance(e.func, ast.Name) and e.func.id == "isinstance" and len(e.args) == 2:
                spec = ftx.class_spec(e.args[1], {}) or []
                if is_env_name(e.args[0], node) and spec:
                    return ("str" in spec and name_state in ("empty", "name")) or ("bool" in spec and name_state == "false")
                if spec == ["Field"]:
                    return True
            if is_env_name(e, node):
                return name_state == "name"
            if is_read(e, node):
                return var_state == "text"
            if isinstance(e, ast.Compare) and len(e.ops) == 1 and isinstance(e.comparators[0], ast.Constant):
                c = e.comparators[0].value
                op = e.ops[0]
                pos = isinstance(op, (ast.Is, ast.Eq))
                neg = isinstance(op, (ast.IsNot, ast.NotEq))
                if (pos or neg) and is_env_name(e.left, node) and (c is None or c is False or c == ""):
                    hit = {None: "none", False: "false", "": "empty"}[c] == name_state
                    return hit if pos else (not hit)
                if (pos or neg) and is_read(e.left, node) and (c is None or c == ""):
                    hit = (var_state == "unset") if c is None else (var_state == "empty")
                    return hit if pos else (not hit)
            return None
        return decide

    def table(fn, gfn, reads, outcome):
        ftx = an.ft(fn)
        out = {}
        for ns in NAME_STATES:
            for vs in VAR_STATES:
                if ns != "name" and vs != "unset":
                    continue        # without a name the variable is never looked at
                sp_ = Spec(an, fn, table_decider(fn, ftx, reads, ns, vs))
                out[(ns, vs)] = outcome(sp_)
        return out

    lt_reads = [n for f2, n in sites if f2 is lt]
    sd_reads = [n for f2, n in sites if f2 is sd]

    def lt_outcome(sp_):
        stored = [x for x in g.nodes if x.kind == "call" and set_value in an.callees(lt, x) and x in sp_.normal]
        decoded = [x for x in g.nodes if x in sp_.normal and any(e[0] == "CODEC" and e[2] == "to_python" for e in calls.direct(lt, x))]
        if not stored and not decoded:
            return "skipped"
        if stored and decoded:
            return "stored"
        return "stored-undecoded" if stored else "decoded-not-stored"

    def sd_outcome(sp_):
        kinds = set()
        for st in [n for n in gsd.nodes if n.kind == "call" and sdv in an.callees(sd, n) and n in sp_.normal]:
            val = st.ast.args[1] if len(st.ast.args) > 1 else None
            for k, pl in (sp_.sources(val, st) if val is not None else [("?", None)]):
                if k == "expr" and isinstance(pl, ast.Call) and isinstance(pl.func, ast.Attribute) and pl.func.attr == "validate":
                    kinds.add("validated")
                elif k == "expr" and isinstance(pl, ast.Attribute) and pl.attr == "default":
                    kinds.add("default")
                elif k == "expr" and isinstance(pl, ast.AST) and any(id(x) in {id(r.ast) for r in sd_reads} for x in ast.walk(pl)):
                    kinds.add("raw")
                elif k == "expr" and isinstance(pl, ast.Constant) and pl.value is None:
                    kinds.add("none")
                else:
                    kinds.add("?")
        return kinds
    lt_table = table(lt, g, lt_reads, lt_outcome)
    sd_table = table(sd, gsd, sd_reads, sd_outcome)
    show_state = lambda k: "env=%s, variable %s" % ({"none": "None", "false": "False", "empty": "''", "name": "'NAME'"}[k[0]],
                                                   {"unset": "unset", "empty": "''", "text": "'text'"}[k[1]])
    for key in sorted(lt_table):
        want_env = key == ("name", "text")
        got = lt_table[key]
        ok = (got == "skipped") if want_env else (got == "stored")
        rule = "skip.exists" if want_env else "skip.non-empty-only"
        ctx.ob(rule, lt, "load_tree with %s" % show_state(key), ok,
               ("the document value is skipped (neither decoded nor stored)" if want_env else "the document value is decoded and stored") if ok else
               ("with %s the document value is %s: %s" % (show_state(key), got,
                "a document loaded afterwards overrides the variable" if want_env else
                "the skip does not depend on the variable being named and non-empty")))
        got_sd = sd_table[key]
        if want_env:
            ok_sd = "validated" in got_sd and "raw" not in got_sd and "?" not in got_sd and "none" not in got_sd
            ctx.ob("env.validated-value-applied", sd, "__setdefault__ with %s" % show_state(key), ok_sd,
                   "the value stored for a set variable is self.validate(cfg, <variable>)" if ok_sd else
                   ("the raw variable text is stored without validation" if "raw" in got_sd else
                    "the validated variable never reaches _set_default_value (stored: %s)" % sorted(got_sd)))
        else:
            ok_sd = got_sd == {"default"}
            ctx.ob("env.default-is-fallback", sd, "__setdefault__ with %s" % show_state(key), ok_sd,
                   "the declared default is stored" if ok_sd else
                   "with %s __setdefault__ stores %s instead of the declared default" % (show_state(key), sorted(got_sd)))
        agree = (got == "skipped") == ("validated" in got_sd)
        ctx.ob("agree.read-guard-skip-guard", lt, "load_tree vs __setdefault__ with %s" % show_state(key), agree,
               "both sides decide alike" if agree else
               "with %s __setdefault__ %s the variable but load_tree %s the document value: neither or both win" % (
                   show_state(key), "applies" if "validated" in got_sd else "does not apply", "skips" if got == "skipped" else "stores"))
    ctx.ob("skip.precedes-store", lt, "skip before decode/store", lt_table[("name", "text")] == "skipped",
           "a skipped key is neither decoded nor stored" if lt_table[("name", "text")] == "skipped" else "the value of a skipped key is still %s" % lt_table[("name", "text")])
    g = gsd
    reads = sd_reads
    # what validate() receives is the variable's value
    for n in g.nodes:
        if n.kind == "call" and isinstance(n.ast.func, ast.Attribute) and n.ast.func.attr == "validate" and len(n.ast.args) >= 2:
            okv = any(k == "expr" and isinstance(pl, ast.Call) and any(r.ast is pl for r in reads) for k, pl in value_sources(sd, n.ast.args[1], n))
            ctx.ob("env.validates-the-variable", sd, n.ast, okv, "validate() is given the variable's value" if okv else
                   "validate() is not applied to the variable's value", node=n)
    # default only when the variable gave nothing
    for n in g.nodes:
        if n.kind == "assign" and isinstance(n.ast, ast.Assign) and isinstance(n.ast.value, ast.Attribute) and n.ast.value.attr == "default":
            tgt = n.ast.targets[0]
            okd = isinstance(tgt, ast.Name) and any(
                tr and isinstance(t.ast, ast.Compare) and isinstance(t.ast.ops[0], ast.Is) and isinstance(t.ast.left, ast.Name) and t.ast.left.id == tgt.id
                for t, tr in dominating_guards(an, sd, n))
            ctx.ob("env.default-only-without-variable", sd, n.ast, okd, "the default replaces the value only while it is still None" if okd else
                   "the declared default overwrites a value taken from the environment", node=n)

    for x in ast.walk(sd.node):
        if isinstance(x, ast.BoolOp) and isinstance(x.op, ast.Or) and any(isinstance(v, ast.Attribute) and v.attr == "default" for v in x.values[1:]):
            at = None
            y = x
            while y is not None and not g.nodes_for(y):
                y = getattr(y, "_parent", None)
            at = g.nodes_for(y)[0] if y is not None and g.nodes_for(y) else None
            validated_first = any(
                k == "expr" and isinstance(pl, ast.Call) and isinstance(pl.func, ast.Attribute) and pl.func.attr == "validate"
                for v in x.values[:-1] for k, pl in value_sources(sd, v, at))
            ctx.ob("env.default-only-without-variable", sd, x, not validated_first,
                   "`or self.default` is applied to something that is never a validated variable value" if not validated_first else
                   "`<validated value> or self.default`: a variable whose validated value is falsy (0, 0.0, False, '') is replaced by the declared default",
                   node=at)
    # ---------------------------------------------------------------- C14.3 assignment route
    acalls = an.summary(ASSIGN_CALLS)
    roots = []
    for c in Field.subclasses():
        for m in ("validate", "_validate", "__setval__"):
            f = c.methods.get(m)
            if f is not None:
                roots.append(f)
    bad = [f for f in roots if any(e[0] == "ENV_READ" for e in acalls.fn_events(f))]
    ctx.ob("assignment.no-env.field-methods", Field, "validate/_validate/__setval__ of all %d implementations" % len(roots), not bad,
           "no validation or store method consults the environment" if not bad else
           "%s reads the environment: an explicit assignment can be overridden by a variable" % ", ".join(f.qualname for f in bad[:3]))
    sv = model.method("Config", "_set_value")
    g = an.cfg(sv)
    ft = an.ft(sv)
    def is_field_test(t):
        e = expand_aliases(sv, t.ast, t)        # also `is_value_field = isinstance(field, Field)` tested later
        return isinstance(e, ast.Call) and ast.unparse(e.func) == "isinstance" and len(e.args) == 2 and "Field" in (ft.class_spec(e.args[1], {}) or [])
    field_tests = [t for t in g.nodes if t.kind == "test" and is_field_test(t)]
    ctx.need(bool(field_tests), "Config._set_value lost its Field branch")
    for t in field_tests:
        for s, lbl in t.succ:
            if lbl is True:
                seen = g.reachable([s], may_raise=lambda n: an.node_may_raise(sv, n))
                hit = [n for n in seen if any(e[0] == "ENV_READ" for e in acalls.node_events(sv, n))]
                ctx.ob("assignment.no-env.set_value", sv, t.ast, not hit, "the Field branch of _set_value reads no variable" if not hit else
                       "the assignment path consults the environment at line %s" % hit[0].lineno, node=t)
    pre = g.reachable([g.entry], may_raise=lambda n: False, stop=lambda n: n in field_tests)
    hit = [n for n in pre if any(e[0] == "ENV_READ" for e in acalls.node_events(sv, n))]
    ctx.ob("assignment.no-env.lookup", sv, "field lookup before the branch", not hit, "looking the field up reads no variable" if not hit else
           "the field lookup consults the environment")

    # ---------------------------------------------------------------- C14.4 siblings
    exempt = [model.cls("VirtualFieldMixin"), model.cls("InstanceMethodFieldMixin")]
    for c in Field.subclasses(strict=True):
        f = c.methods.get("__setdefault__")
        if f is None:
            continue
        if any(c.is_subclass_of(m) for m in exempt):
            ctx.ob("sibling", f, "env-route", True, "exempt: holds no value", nontrivial=False)
            continue
        g = an.cfg(f)
        keep = {n for n in g.nodes if sd in an.callees(f, n) or any(e[0] == "ENV_READ" for e in calls.direct(f, n))}
        # asked for a field that *is* bound to a variable (the setting is a non-empty name): without one there is nothing to read
        from engine.specialize import Spec as _Spec

        def bound(e, node, f=f):
            def is_env(x):
                if isinstance(x, ast.Attribute) and x.attr == "env" and isinstance(x.value, ast.Name) and x.value.id == f.self_name:
                    return True
                if isinstance(x, ast.Name):
                    ss = value_sources(f, x, node)
                    return bool(ss) and all(k_ == "expr" and isinstance(p_, ast.Attribute) and p_.attr == "env" for k_, p_ in ss)
                return False
            if is_env(e):
                return True
            if isinstance(e, ast.Call) and isinstance(e.func, ast.Name) and e.func.id == "isinstance" and len(e.args) == 2 and is_env(e.args[0]) \
                    and isinstance(e.args[1], ast.Name) and e.args[1].id == "str":
                return True
            return None
        spb = _Spec(an, f, bound)
        p = path_avoiding(an, f, g.entry, lambda n: n is g.exit, lambda n: n in keep, edge_filter=spb.edge_ok)
        ctx.ob("sibling", f, "env-route", p is None,
               "every normal path delegates to Field.__setdefault__ (or reads the variable itself)" if p is None else
               "%s can finish without the environment route although load_tree skips the file value when the variable is set "
               "(path %s): with the variable set, neither the variable nor the document value is applied"
               % (f.qualname, " -> ".join("%s@%s" % (x.kind, x.lineno) for x in p[:8])))

    # ---------------------------------------------------------------- C14.5 names
    from .envnames import check_names
    check_names(ctx, an, model)
    # the prefix is inherited along the schema chain that `schema.child.x = ...` walks: those accessors ask `if not field:` --
    # shared clause on the truthiness of schema objects
    from .common import check_truthiness_protocol
    check_truthiness_protocol(ctx)

    # ---------------------------------------------------------------- C14.5b every field that enters a field table is told its key
    # (__setkey__ is where the variable name / nested prefix is derived: a field stored without it never gets one)
    from .common import container_mutations
    nreg = 0
    for fn in an.fns():
        g = an.cfg(fn)
        for node in g.nodes:
            for owner, op, key, val in container_mutations(an, fn, node, "_fields"):
                if op != "setitem" or val is None:
                    continue
                nreg += 1
                told = [m for m in g.nodes if m.kind == "call" and isinstance(m.ast.func, ast.Attribute) and m.ast.func.attr == "__setkey__"
                        and isinstance(m.ast.func.value, ast.Name)]

                def same_field(m):
                    recv = m.ast.func.value
                    if isinstance(val, ast.Name) and same_name_value(fn, recv, m, val, node):
                        return True
                    # chained assignment: f = table[key] = Ctor()
                    st = node.ast
                    if isinstance(st, ast.Assign):
                        for t in st.targets:
                            if isinstance(t, ast.Name) and t.id == recv.id and any(d.node is node for d in reaching_defs(fn).reaching(m, recv.id)):
                                return True
                    return False
                mine = {m for m in told if same_field(m)}
                p = g.path(node, lambda x: x is g.exit, may_raise=lambda x: False, stop=lambda x: x in mine, from_successors=True)
                before = bool(mine) and must_pass(an, fn, node, lambda x: x in mine) is None
                ok = bool(mine) and (p is None or before)
                ctx.ob("name.setkey-on-registration", fn, node.ast, ok,
                       "the field stored in the table is given its key (and derives its variable name) through __setkey__" if ok else
                       "%s puts a field into a field table without calling its __setkey__: it never derives a variable name / inherits the prefix" % fn.qualname,
                       node=node)
    ctx.need(nreg >= 2, "fewer than 2 stores into a field table found: vanished anchors")
