"""C14 -- environment variables beat files, assignment beats both, names are predictable."""
from __future__ import annotations

import ast

from engine.defuse import value_sources
from engine.effects import EventSpec
from engine.flow import dominating_guards, expand_aliases, must_pass, path_avoiding, reachable_from_entry
from .common import CALLS, call_events

META = {
    "explanation": (
        "Decided: the environment is read in exactly two places (Field.__setdefault__ and the skip guard of "
        "Config.load_tree) and the two guards are the same predicate over the field's env attribute, so a "
        "document value is skipped exactly when the variable was used; the variable's value is validated and "
        "is what becomes the default, the declared default only when the variable gave nothing; the assignment "
        "route (Config._set_value's Field branch and everything validate/_validate/__setval__ reach without "
        "building a new sub-configuration) never consults the environment; every persistent field kind that "
        "overrides __setdefault__ either delegates to Field.__setdefault__ on every normal path or performs the "
        "same guarded read -- otherwise load_tree skips the file value for a variable nobody applied; the derived "
        "variable name is prefix + '_' + KEY.upper(), opt-out (env=False) returns before any derivation."),
    "decided": ["C14.1 ENV_READ sites and agreement of read guard and skip guard", "C14.2 variable validated, applied, default only as fallback",
                "C14.3 assignment route free of environment reads", "C14.4 sibling __setdefault__ implementations keep the protocol",
                "C14.5 shape of the derived variable name and the opt-out"],
    "not_decided": ["the derived variable names over the whole schema/field setting matrix"],
}


def norm_guard(fn, t, recv_names):
    """normalise a guard expression: the field receiver becomes F, local aliases are expanded"""
    e = expand_aliases(fn, t.ast, t)
    txt = ast.unparse(e)
    for r in recv_names:
        txt = txt.replace(r + ".", "F.")
    return txt


def no_config_creation(an, fn, node, target):
    """do not follow into the construction / loading of a *new* configuration (load semantics)"""
    Config = an.model.cls("Config")
    if target.kind == "ctor" and target.cls is not None and hasattr(target.cls, "is_subclass_of") and target.cls.is_subclass_of(Config):
        return False
    if target.fn is not None and target.fn.cls is not None and target.fn.cls.is_subclass_of(Config) and target.fn.name in ("__init__", "load_tree"):
        return False
    return True


ASSIGN_CALLS = EventSpec("calls-no-new-config", call_events, follow=no_config_creation)


def check(ctx):
    an, model = ctx.an, ctx.model
    calls = an.summary(CALLS)
    Field = model.cls("Field")
    sd = model.method("Field", "__setdefault__")
    lt = model.method("Config", "load_tree")

    # ---------------------------------------------------------------- C14.1
    sites = []
    for fn in an.fns():
        for n in an.cfg(fn).nodes:
            if any(e[0] == "ENV_READ" for e in calls.direct(fn, n)):
                sites.append((fn, n))
    ctx.need(any(f is sd for f, _ in sites), "Field.__setdefault__ no longer reads the environment: vanished anchor")
    if not any(f is lt for f, _ in sites):
        ctx.ob("skip.exists", lt, "skip guard for keys bound to a set variable", False,
               "load_tree no longer skips keys whose environment variable is set: a document loaded afterwards overrides the variable")
        return
    ctx.ob("skip.exists", lt, "skip guard for keys bound to a set variable", True, "load_tree consults the variable before applying a key")
    for fn, n in sites:
        ok = fn is sd or fn is lt
        ctx.ob("env-read.sites", fn, n.ast, ok, "environment consulted by the default route / the load skip guard" if ok else
               "%s reads the environment: a third place decides about variables on its own" % fn.qualname, node=n)
    # guards
    def env_guard(fn, recv):
        out = set()
        g = an.cfg(fn)
        for f2, n in sites:
            if f2 is not fn:
                continue
            # the read itself and every test that dominates it / is fed by it
            out.add(ast.unparse(expand_aliases(fn, n.ast, n)).replace(recv + ".", "F."))
            for t, tr in dominating_guards(an, fn, n):
                txt = norm_guard(fn, t, [recv])
                if "env" in txt:
                    out.add(("" if tr else "not ") + txt)
        return out
    sd_recv = sd.self_name
    lt_recv = None
    for n in an.cfg(lt).nodes:
        if any(e[0] == "ENV_READ" for e in calls.direct(lt, n)) and n.ast.args:
            a = expand_aliases(lt, n.ast.args[0], n)
            if isinstance(a, ast.Attribute) and isinstance(a.value, ast.Name):
                lt_recv = a.value.id
    ctx.need(lt_recv is not None, "cannot find the field receiver of the skip guard in load_tree")
    g1, g2 = env_guard(sd, sd_recv), env_guard(lt, lt_recv)
    ctx.ob("agree.read-guard-skip-guard", lt, "skip guard %s" % sorted(g2), g1 == g2,
           "load_tree skips a key under exactly the predicate under which __setdefault__ read the variable: %s" % sorted(g1) if g1 == g2 else
           "the variable is read under %s but document values are skipped under %s" % (sorted(g1), sorted(g2)))
    # the skip really skips (continue) and the value of the read decides it
    g = an.cfg(lt)
    for f2, n in sites:
        if f2 is lt:
            par = getattr(n.ast, "_parent", None)
            is_test = any(t.kind == "test" and t.ast is n.ast for t in g.nodes)
            ctx.ob("skip.non-empty-only", lt, n.ast, is_test, "the key is skipped only when the variable is set and non-empty" if is_test else
                   "the skip does not depend on the variable being non-empty", node=n)
    # the skip happens before to_python / _set_value in the same iteration
    set_value = model.method("Config", "_set_value")
    for f2, n in sites:
        if f2 is lt:
            tnode = [t for t in g.nodes if t.kind == "test" and t.ast is n.ast]
            for t in tnode:
                for s, lbl in t.succ:
                    if lbl is True:
                        p = None if s.kind == "for_iter" else g.path(
                            s, lambda x: set_value in an.callees(lt, x), may_raise=lambda x: False, stop=lambda x: x.kind == "for_iter")
                        ctx.ob("skip.precedes-store", lt, n.ast, p is None, "a skipped key is neither decoded nor stored" if p is None else
                               "the value of a skipped key is still stored", node=t)

    # ---------------------------------------------------------------- C14.2
    g = an.cfg(sd)
    sdv = model.method("Config", "_set_default_value")
    stores = [n for n in g.nodes if n.kind == "call" and sdv in an.callees(sd, n)]
    ctx.need(bool(stores), "Field.__setdefault__ no longer calls _set_default_value")
    reads = [n for f2, n in sites if f2 is sd]
    for st in stores:
        val = st.ast.args[1] if len(st.ast.args) > 1 else None
        srcs = value_sources(sd, val, st) if val is not None else []
        has_validated = any(k == "expr" and isinstance(pl, ast.Call) and isinstance(pl.func, ast.Attribute) and pl.func.attr == "validate"
                            and any(isinstance(x, ast.Name) for x in pl.args[1:2]) for k, pl in srcs)
        raw = any(k == "expr" and isinstance(pl, ast.Call) and any(r.ast is pl for r in reads) for k, pl in srcs)
        has_default = any(k == "expr" and isinstance(pl, ast.Attribute) and pl.attr == "default" for k, pl in srcs)
        ctx.ob("env.validated-value-applied", sd, st.ast, has_validated and not raw,
               "the value stored for a set variable is self.validate(cfg, <variable>)" if has_validated and not raw else
               ("the raw variable text is stored without validation" if raw else "the validated variable never reaches _set_default_value"), node=st)
        ctx.ob("env.default-is-fallback", sd, st.ast, has_default, "the declared default is the fallback" if has_default else
               "the declared default is no longer applied when no variable is set", node=st)
    # what validate() receives is the variable's value
    for n in g.nodes:
        if n.kind == "call" and isinstance(n.ast.func, ast.Attribute) and n.ast.func.attr == "validate" and len(n.ast.args) >= 2:
            okv = any(k == "expr" and isinstance(pl, ast.Call) and any(r.ast is pl for r in reads) for k, pl in value_sources(sd, n.ast.args[1], n))
            ctx.ob("env.validates-the-variable", sd, n.ast, okv, "validate() is given the variable's value" if okv else
                   "validate() is not applied to the variable's value", node=n)
    # default only when the variable gave nothing
    for n in g.nodes:
        if n.kind == "assign" and isinstance(n.ast, ast.Assign) and isinstance(n.ast.value, ast.Attribute) and n.ast.value.attr == "default":
            tgt = n.ast.targets[0]
            okd = isinstance(tgt, ast.Name) and any(
                tr and isinstance(t.ast, ast.Compare) and isinstance(t.ast.ops[0], ast.Is) and isinstance(t.ast.left, ast.Name) and t.ast.left.id == tgt.id
                for t, tr in dominating_guards(an, sd, n))
            ctx.ob("env.default-only-without-variable", sd, n.ast, okd, "the default replaces the value only while it is still None" if okd else
                   "the declared default overwrites a value taken from the environment", node=n)

    # ---------------------------------------------------------------- C14.3 assignment route
    acalls = an.summary(ASSIGN_CALLS)
    roots = []
    for c in Field.subclasses():
        for m in ("validate", "_validate", "__setval__"):
            f = c.methods.get(m)
            if f is not None:
                roots.append(f)
    bad = [f for f in roots if any(e[0] == "ENV_READ" for e in acalls.fn_events(f))]
    ctx.ob("assignment.no-env.field-methods", Field, "validate/_validate/__setval__ of all %d implementations" % len(roots), not bad,
           "no validation or store method consults the environment" if not bad else
           "%s reads the environment: an explicit assignment can be overridden by a variable" % ", ".join(f.qualname for f in bad[:3]))
    sv = model.method("Config", "_set_value")
    g = an.cfg(sv)
    ft = an.ft(sv)
    field_tests = [t for t in g.nodes if t.kind == "test" and isinstance(t.ast, ast.Call) and ast.unparse(t.ast.func) == "isinstance"
                   and "Field" in (ft.class_spec(t.ast.args[1], {}) or [])]
    ctx.need(bool(field_tests), "Config._set_value lost its Field branch")
    for t in field_tests:
        for s, lbl in t.succ:
            if lbl is True:
                seen = g.reachable([s], may_raise=lambda n: an.node_may_raise(sv, n))
                hit = [n for n in seen if any(e[0] == "ENV_READ" for e in acalls.node_events(sv, n))]
                ctx.ob("assignment.no-env.set_value", sv, t.ast, not hit, "the Field branch of _set_value reads no variable" if not hit else
                       "the assignment path consults the environment at line %s" % hit[0].lineno, node=t)
    pre = g.reachable([g.entry], may_raise=lambda n: False, stop=lambda n: n in field_tests)
    hit = [n for n in pre if any(e[0] == "ENV_READ" for e in acalls.node_events(sv, n))]
    ctx.ob("assignment.no-env.lookup", sv, "field lookup before the branch", not hit, "looking the field up reads no variable" if not hit else
           "the field lookup consults the environment")

    # ---------------------------------------------------------------- C14.4 siblings
    exempt = [model.cls("VirtualFieldMixin"), model.cls("InstanceMethodFieldMixin")]
    for c in Field.subclasses(strict=True):
        f = c.methods.get("__setdefault__")
        if f is None:
            continue
        if any(c.is_subclass_of(m) for m in exempt):
            ctx.ob("sibling", f, "env-route", True, "exempt: holds no value", nontrivial=False)
            continue
        g = an.cfg(f)
        keep = {n for n in g.nodes if sd in an.callees(f, n) or any(e[0] == "ENV_READ" for e in calls.direct(f, n))}
        p = path_avoiding(an, f, g.entry, lambda n: n is g.exit, lambda n: n in keep)
        ctx.ob("sibling", f, "env-route", p is None,
               "every normal path delegates to Field.__setdefault__ (or reads the variable itself)" if p is None else
               "%s can finish without the environment route although load_tree skips the file value when the variable is set "
               "(path %s): with the variable set, neither the variable nor the document value is applied"
               % (f.qualname, " -> ".join("%s@%s" % (x.kind, x.lineno) for x in p[:8])))

    # ---------------------------------------------------------------- C14.5 names
    sk = model.method("Field", "__setkey__")
    g = an.cfg(sk)
    derived = [n for n in g.nodes if n.kind == "assign" and isinstance(n.ast, ast.Assign) and any(isinstance(t, ast.Attribute) and t.attr == "env" for t in n.ast.targets)]
    ctx.need(bool(derived), "Field.__setkey__ no longer derives the variable name")
    def name_shape(fn):
        """(key upper-cased, prefix case untouched, '_' joiner present)"""
        key_upper = False
        prefix_recased = None
        for x in ast.walk(fn.node):
            if isinstance(x, ast.Call) and isinstance(x.func, ast.Attribute) and x.func.attr in ("upper", "lower", "casefold", "title", "capitalize", "swapcase"):
                recv = x.func.value
                if x.func.attr == "upper" and isinstance(recv, ast.Attribute) and recv.attr == "_key":
                    key_upper = True
                    continue
                # anything else that is re-cased: does it contain the inherited prefix?
                names = set()
                for y in ast.walk(recv):
                    if isinstance(y, ast.Attribute) and y.attr == "_env_prefix":
                        names.add("_env_prefix")
                    if isinstance(y, ast.Name):
                        for k, pl in value_sources(fn, y, None):
                            if k == "expr" and isinstance(pl, ast.AST) and any(isinstance(z, ast.Attribute) and z.attr == "_env_prefix" for z in ast.walk(pl)):
                                names.add(y.id)
                        # comprehension variables iterating over a tuple/list that holds the prefix
                        par = getattr(y, "_parent", None)
                        while par is not None and not isinstance(par, (ast.FunctionDef,)):
                            if isinstance(par, (ast.GeneratorExp, ast.ListComp)):
                                if any(isinstance(z, ast.Attribute) and z.attr == "_env_prefix" for g2 in par.generators for z in ast.walk(g2.iter)) or \
                                        any(isinstance(z, ast.Name) and any(k2 == "expr" and isinstance(p2, ast.AST) and any(
                                            isinstance(w, ast.Attribute) and w.attr == "_env_prefix" for w in ast.walk(p2))
                                            for k2, p2 in value_sources(fn, z, None)) for g2 in par.generators for z in ast.walk(g2.iter)):
                                    names.add("<comprehension over prefix>")
                            par = getattr(par, "_parent", None)
                if names:
                    prefix_recased = ast.unparse(x)[:60]
        joiner = any(isinstance(x, ast.Constant) and x.value == "_" for x in ast.walk(fn.node))
        return key_upper, prefix_recased, joiner

    ku, pr, jn = name_shape(sk)
    for n in derived:
        ctx.ob("name.shape", sk, n.ast, ku and pr is None, "variable = prefix (as given) + KEY.upper()" if ku and pr is None else
               ("the inherited prefix is re-cased (%s): a prefix given in lower case no longer names the variable" % pr if pr else
                "the key part of the derived variable name is not upper-cased"), node=n)
        # opt-out dominates
        dg = dominating_guards(an, sk, n)
        opt = any((not tr) and isinstance(t.ast, ast.Compare) and isinstance(t.ast.ops[0], ast.Is) and isinstance(t.ast.comparators[0], ast.Constant)
                  and t.ast.comparators[0].value is False and "env" in ast.unparse(t.ast.left) for t, tr in dg)
        ctx.ob("name.opt-out", sk, n.ast, opt, "env=False returns before any name is derived" if opt else
               "a field that opted out (env=False) can still get a variable name", node=n)
    ctx.ob("name.joiner", sk, "prefix + '_'", jn, "prefix and key are joined by '_'" if jn else "the prefix joiner is no longer '_'")
    ssk = model.method("Schema", "__setkey__")
    ku, pr, jn = name_shape(ssk)
    ctx.ob("name.nested-prefix", ssk, "nested prefix = parent (as given) + '_' + KEY.upper()", ku and jn and pr is None,
           "nested schemas extend the prefix the same way" if ku and jn and pr is None else
           ("the inherited prefix is re-cased (%s): variables below a lower-case named prefix are no longer found" % pr if pr else
            "nested schema prefixes are not parent + '_' + upper-cased key"))
    g = an.cfg(ssk)
    for n in g.nodes:
        if n.kind == "assign" and isinstance(n.ast, ast.Assign) and any(isinstance(t, ast.Attribute) and t.attr == "_env_prefix" for t in n.ast.targets):
            dg = dominating_guards(an, ssk, n)
            opt = any((not tr) and isinstance(t.ast, ast.Compare) and isinstance(t.ast.comparators[0], ast.Constant) and t.ast.comparators[0].value is False for t, tr in dg)
            inh = any(tr and isinstance(t.ast, ast.Compare) and isinstance(t.ast.ops[0], ast.Is) and isinstance(t.ast.comparators[0], ast.Constant)
                      and t.ast.comparators[0].value is None for t, tr in dg)
            ctx.ob("name.nested-opt-out", ssk, n.ast, opt and inh, "a nested schema inherits only when its own setting is None and not False" if opt and inh else
                   "a nested schema's own env setting (False / explicit prefix) can be overwritten by inheritance", node=n)
